#!/bin/sh
# Offline setup: nothing to download or install; warm the Kani build cache so that the first
# check does not pay for compiling the dependency crates.  Safe to skip.
cd "$(dirname "$0")"
mkdir -p .cache evidence replays
python3 lib/warm.py || true
exit 0
