//! Verification shim: naive reference implementations (trusted model of memchr).
pub fn memchr(a: u8, h: &[u8]) -> Option<usize> { let mut i = 0; while i < h.len() { if h[i]==a { return Some(i);} i+=1; } None }
pub fn memchr2(a: u8, b: u8, h: &[u8]) -> Option<usize> { let mut i = 0; while i < h.len() { if h[i]==a || h[i]==b { return Some(i);} i+=1; } None }
pub fn memrchr(a: u8, h: &[u8]) -> Option<usize> { let mut i = h.len(); while i > 0 { i-=1; if h[i]==a { return Some(i);} } None }
pub fn memrchr2(a: u8, b: u8, h: &[u8]) -> Option<usize> { let mut i = h.len(); while i > 0 { i-=1; if h[i]==a || h[i]==b { return Some(i);} } None }
