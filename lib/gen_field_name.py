#!/usr/bin/env python3
"""Generates the C20 field-name layout family (contracts/kani/format/field_name_family.rs.inc text, printed to
stdout). Each layout is a sequence of character classes ('.', '[', ']', DIGIT, OTHER: a partition of ASCII);
the expectation for a layout is what Python's own splitter (_string.formatter_field_name_split, CPython 3.11)
returns for a representative of the layout - checked here against the class-based transcription of
Objects/stringlib/unicode_format.h on every text of up to 5 characters - expressed over the layout's positions,
so that it holds for every digit / ordinary character in those positions."""
import itertools, sys
try:
    import _string
except ImportError:
    _string = None

def oracle(b):
    n = len(b); i = 0
    while i < n and b[i] not in '.[': i += 1
    if i == 0: head = ('auto',)
    elif all(c in '0123456789' for c in b[:i]): head = ('index', 0, i)
    else: head = ('kw', 0, i)
    parts = []
    while i < n:
        c = b[i]; i += 1
        if c == '.':
            s = i
            while i < n and b[i] not in '.[': i += 1
            if s == i: return ('err', 'EmptyAttribute')
            parts.append(('attr', s, i))
        elif c == '[':
            s = i
            while i < n and b[i] != ']': i += 1
            if i == n: return ('err', 'MissingRightBracket')
            if s == i: return ('err', 'EmptyAttribute')
            parts.append(('idx' if all(ch in '0123456789' for ch in b[s:i]) else 'sidx', s, i))
            i += 1
        else:
            return ('err', 'InvalidCharacterAfterRightBracket')
    return ('ok', head, parts)

def cpython(b):
    try:
        first, rest = _string.formatter_field_name_split(b)
        rest = list(rest)
    except ValueError as e:
        m = str(e)
        for k, v in (("Empty attribute", 'EmptyAttribute'), ("Missing ']'", 'MissingRightBracket'), ("Only '.' or '['", 'InvalidCharacterAfterRightBracket')):
            if k in m: return ('err', v)
        return ('err', m)
    return ('ok', ('auto',) if first == '' else (('index', first) if isinstance(first, int) else ('kw', first)),
            [('attr', k) if a else (('idx', k) if isinstance(k, int) else ('sidx', k)) for a, k in rest])

def concrete(b, o):
    if o[0] == 'err': return o
    _, head, parts = o
    h = ('auto',) if head[0] == 'auto' else (('index', int(b[head[1]:head[2]])) if head[0] == 'index' else ('kw', b[head[1]:head[2]]))
    return ('ok', h, [(k, int(b[s:e]) if k == 'idx' else b[s:e]) for k, s, e in parts])

def validate():
    if _string is None: return 0
    n = 0
    for ln in range(0, 6):
        for t in itertools.product('.[]0a+', repeat=ln):
            s = ''.join(t)
            assert concrete(s, oracle(s)) == cpython(s), (s, oracle(s), cpython(s))
            n += 1
    return n

CLASS_NAMES = ["dot", "lb", "rb", "d", "x"]
CLASS_SHOW = ["'.'", "'['", "']'", "DIGIT", "OTHER"]
REP = ".[]7q"

def text_eq(var, s, e):
    return " && ".join(["%s.len() == %d" % (var, e - s)] + ["%s.as_bytes()[%d] == buf[%d]" % (var, k - s, k) for k in range(s, e)])

def value_of(s, e):
    x = "0usize"
    for k in range(s, e):
        x = "(%s * 10 + (buf[%d] - b'0') as usize)" % (x, k)
    return x

def harness(shape, tier):
    name = "_".join(CLASS_NAMES[c] for c in shape)
    rep = "".join(REP[c] for c in shape)
    o = oracle(rep)
    lines = []
    show = " ".join(CLASS_SHOW[c] for c in shape)
    if o[0] == 'err': exp = "rejected: " + o[1]
    else:
        exp = "head " + (o[1][0] if o[1][0] == 'auto' else "%s[%d..%d]" % o[1]) + "; accessors " + (", ".join("%s[%d..%d]" % p for p in o[2]) or "none")
    lines.append("// @ob id=C20.k.field_name_%s props=C20 kind=bounded tier=%s timeout=600" % (name, tier))
    lines.append("// @bound every ASCII field name of the layout %s (DIGIT any ASCII digit, OTHER any ASCII character other than . [ ] and digits); %s" % (show, "the 5 one-character layouts together are all 128 one-character ASCII names" if len(shape) == 1 else "together with the other layouts starting with '.' or '[' these are all ASCII names of %d characters with an empty head" % len(shape)))
    lines.append("// @clause splitting a field name yields Python's head (an empty head before accessors is automatic numbering, ASCII digits are an index, anything else a keyword), Python's chain of attribute / index accessors and Python's rejections - for this layout: %s" % exp)
    lines.append("// @fns FieldName::parse FieldNamePart::parse_part parse_index")
    lines.append("#[kani::proof]\n#[kani::unwind(%d)]" % (len(shape) + 2) + "\n#[kani::stub(core::str::slice_error_fail, slice_error_fail_plain)]")
    lines.append("fn c20_field_name_%s() {" % name)
    lines.append("    let buf: [u8; %d] = [%s];" % (len(shape), ", ".join("field_name_byte(%d)" % c for c in shape)))
    lines.append("    let text = unsafe { std::str::from_utf8_unchecked(&buf) };")
    lines.append("    let r = ManuallyDrop::new(FieldName::parse(text));")
    if o[0] == 'err':
        lines.append("    assert!(matches!(&*r, Err(FormatParseError::%s)));" % o[1])
    else:
        _, head, parts = o
        lines.append("    match &*r {")
        lines.append("        Ok(f) => {")
        if head[0] == 'auto':
            lines.append("            assert!(matches!(&f.field_type, FieldType::Auto));")
        elif head[0] == 'index':
            lines.append("            assert!(matches!(&f.field_type, FieldType::Index(v) if *v == %s));" % value_of(head[1], head[2]))
        else:
            lines.append("            assert!(matches!(&f.field_type, FieldType::Keyword(k) if %s));" % text_eq("k", head[1], head[2]))
        lines.append("            assert!(f.parts.len() == %d);" % len(parts))
        for j, (k, s, e) in enumerate(parts):
            if k == 'attr':
                lines.append("            assert!(matches!(&f.parts[%d], FieldNamePart::Attribute(a) if %s));" % (j, text_eq("a", s, e)))
            elif k == 'idx':
                lines.append("            assert!(matches!(&f.parts[%d], FieldNamePart::Index(v) if *v == %s));" % (j, value_of(s, e)))
            else:
                lines.append("            assert!(matches!(&f.parts[%d], FieldNamePart::StringIndex(a) if %s));" % (j, text_eq("a", s, e)))
        lines.append("        }")
        lines.append("        Err(_) => assert!(false, \"Python accepts this field name\"),")
        lines.append("    }")
    lines.append("}")
    return "\n".join(lines)

if __name__ == "__main__":
    n = validate()
    out = ["// GENERATED by lib/gen_field_name.py (oracle validated against CPython on %d texts) - do not edit by hand" % n]
    # Measured: a head of two or more characters (String::push of decoded chars, then usize::from_str over a heap
    # buffer of symbolic length) exhausts 14 GB / 20 min per layout, so beyond one character only the layouts with
    # an EMPTY head (first class '.' or '[') are generated; the head classification itself is covered by the
    # one-character layouts and by the parse_index obligations.
    # Three-character layouts were measured too: as soon as an accessor text has a character followed by anything
    # else ("[7]", ".ab") the same blow-up occurs, so they are not generated.
    for ln, tier in ((1, "quick"), (2, "quick")):
        for shape in itertools.product(range(5), repeat=ln):
            if ln > 1 and shape[0] not in (0, 1):
                continue
            out.append(harness(shape, tier))
    print("\n\n".join(out))
