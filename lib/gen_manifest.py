#!/usr/bin/env python3
"""Regenerates /verif/MANIFEST.json from properties_meta.json (claimed checks) and na.json (not applicable)."""
import json
import os
import sys

sys.path.insert(0, os.path.dirname(os.path.abspath(__file__)))
from common import VERIF, read_json, write_json

meta = read_json(os.path.join(VERIF, "properties_meta.json"))
na = read_json(os.path.join(VERIF, "na.json"))
ids = [json.loads(l)["id"] for l in open(os.path.join(VERIF, "properties.jsonl")) if l.strip()]
checks = []
for pid in ids:
    m = meta.get(pid)
    if not m:
        continue
    checks.append({
        "property_id": pid,
        "quick_cmd": "./check %s --tier quick" % pid,
        "thorough_cmd": "./check %s --tier thorough" % pid,
        "evidence_file": "/verif/evidence/%s.json" % pid,
        "replay_cmd_template": "./check %s --replay {path}" % pid,
        "engine": m.get("engine", "kani"),
        "level_claimed": {"category": m["level"], "text": m["level_text"], "design_ref": m.get("design_ref", "DESIGN.md section 3")},
        "level_note": m["level_note"],
        "technique": m["technique"],
    })
not_app = [{"property_id": pid, "reason": na[pid]} for pid in ids if pid not in meta]
missing = [pid for pid in ids if pid not in meta and pid not in na]
assert not missing, missing
man = {
    "version": 1,
    "setup_cmd": "./setup.sh",
    "hooks": {
        "guard": "kani",
        "enable": "no hook is committed in /repo: every check copies the working tree to a scratch directory and *adds* #[cfg(kani)] child modules and #[cfg_attr(kani, kani::requires/ensures)] attributes there (cfg(kani) is set by cargo-kani only); Verus units are extracted textually from /repo on every run",
        "baseline_off_cmd": "cd /repo && cargo test --workspace --no-fail-fast --offline",
        "source_commits": [],
        "add_only": True,
    },
    "engines": [
        {"name": "K", "path": "/verif/lib/kani_engine.py", "serves_properties": [c["property_id"] for c in checks],
         "kind_free_text": "Kani 0.68 / CBMC 6.11 function contracts and harness-stated contracts on the real crates (snapshot + injected child modules), concrete-playback replay"},
        {"name": "V", "path": "/verif/lib/verus_engine.py", "serves_properties": sorted({p for p in meta if meta[p].get("verus")}),
         "kind_free_text": "Verus 0.2026.09.13 on functions extracted mechanically from /repo each run, spliced with requires/ensures/invariants kept under /verif/contracts/verus"},
        {"name": "N", "path": "/verif/lib/native_engine.py",
         "serves_properties": sorted({p for u in (read_json(os.path.join(VERIF, "contracts", "native", "units.json")) or []) for p in u["props"]}),
         "kind_free_text": "NOT a verifier: bounded stand-ins by native enumeration for functions out of both verifiers' reach - the real code compiled natively (release) and run on every input of a stated finite domain, executable postcondition evaluated on each result (CPython 3.11 as the reference where the clause says Python's); records labelled bounded, never counted as proved"},
    ],
    "checks": checks,
    "not_applicable": not_app,
    "notes": "Contract-based deductive verification of the real code; see DESIGN.md. Exit 2 (UNDECIDED) is used for infrastructure/tool-limit outcomes and never on the unchanged tree.",
}
write_json(os.path.join(VERIF, "MANIFEST.json"), man)
print("MANIFEST.json: %d checks, %d not applicable" % (len(checks), len(not_app)))
