"""Warm the Kani target directory: compile every package with its harness modules (no verification)."""
import os, subprocess, sys
sys.path.insert(0, os.path.dirname(os.path.abspath(__file__)))
import kani_engine, registry
from common import log
with kani_engine.Snapshot() as snap:
    done = set()
    for u in registry.kani_units():
        if u["pkg"] in done:
            continue
        done.add(u["pkg"])
        cmd = ["cargo", "kani", "-p", u["pkg"]] + kani_engine.KANI_FLAGS + ["--only-codegen", "--target-dir", kani_engine.TARGET_DIR]
        if u["features"]:
            cmd += ["--features", ",".join(u["features"])]
        log("warming", u["pkg"])
        subprocess.run(cmd, cwd=snap.repo, env=kani_engine.ENV, stdout=subprocess.DEVNULL, stderr=subprocess.DEVNULL, timeout=3600)

# Engine N: compile the workspace's test profile natively once (release), so that the first native unit only builds its own test
import native_engine
with native_engine.NativeCopy() as copy:
    log("warming native release build")
    subprocess.run(["cargo", "test", "--release", "--offline", "--workspace", "--no-run"], cwd=copy.root,
                   env=dict(native_engine.ENV, CARGO_TARGET_DIR=native_engine.TARGET_DIR, RUSTFLAGS="-C overflow-checks=on -C debug-assertions=on"), stdout=subprocess.DEVNULL, stderr=subprocess.DEVNULL, timeout=3600)
