"""Obligation registry.

The single source of truth for Kani obligations is the harness files themselves:
every harness is preceded by structured comments

    // @ob id=C16.k.ascii_len_agrees props=C16,C03 kind=complete tier=quick [expect=fail] [timeout=600]
    // @clause <which clause of the property statement this obligation carries>
    // @fns <functions of /repo under contract in this obligation>
    #[kani::proof] ...
    fn <harness_name>() {

kind: complete  - loop-free / full-domain harness: a complete proof for all inputs
      contract  - #[kani::proof_for_contract] of an injected function contract (complete, reusable by stub_verified)
      bounded   - bounded stand-in (#[kani::unwind(n)] over size-bounded inputs); never counted as proved
      canary    - must FAIL (vacuity guard); expect=fail is implied
Verus obligations are declared in contracts/verus/<unit>/unit.json (see verus_engine).
"""
import json
import os
import re

from common import CONTRACTS, Undecided

KANI_DIR = os.path.join(CONTRACTS, "kani")
VERUS_DIR = os.path.join(CONTRACTS, "verus")

_OB = re.compile(r"^\s*//\s*@ob\s+(.*)$")
_CL = re.compile(r"^\s*//\s*@clause\s+(.*)$")
_FN = re.compile(r"^\s*//\s*@fns\s+(.*)$")
_BOUND = re.compile(r"^\s*//\s*@bound\s+(.*)$")
_FNDEF = re.compile(r"^\s*(?:(?:pub\s+)?fn\s+([A-Za-z0-9_]+)\s*\(|[a-z_]+!\(\s*([A-Za-z0-9_]+)\s*,)")


def kani_units():
    with open(os.path.join(KANI_DIR, "units.json")) as f:
        units = json.load(f)
    for u in units:
        u.setdefault("features", [])
        u["harness_path"] = os.path.join(KANI_DIR, u["harness"])
        mf = u["module_file"]
        # module path inside the crate
        rel = mf.split("/src/", 1)[1]
        parts = rel[:-3].split("/")
        if parts[-1] in ("mod", "lib"):
            parts = parts[:-1]
        u["mod_name"] = "verif_kani_" + (parts[-1] if parts else "lib")
        u["mod_path"] = "::".join(parts + [u["mod_name"]])
        stem = os.path.basename(mf)[:-3]
        u["inject_name"] = "verif_kani_%s.rs" % stem
    return units


def parse_harness_file(unit):
    """Return the list of obligations declared in one harness file."""
    obs = []
    cur = None
    with open(unit["harness_path"]) as f:
        lines = f.read().split("\n")
    for ln, line in enumerate(lines, 1):
        m = _OB.match(line)
        if m:
            if cur is not None:
                raise Undecided("%s:%d: @ob without following fn" % (unit["harness"], ln))
            cur = {"clause": "", "fns": [], "bound": ""}
            for kv in m.group(1).split():
                k, _, v = kv.partition("=")
                cur[k] = v
            for req in ("id", "props", "kind"):
                if req not in cur:
                    raise Undecided("%s:%d: @ob lacks %s" % (unit["harness"], ln, req))
            cur["props"] = cur["props"].split(",")
            cur.setdefault("tier", "quick")
            if cur["kind"] == "canary":
                cur["expect"] = "fail"
            cur.setdefault("expect", "pass")
            # generous limits: a timeout on the unchanged tree under load would be a (false) undecided
            cur["timeout"] = max(900, 2 * int(cur.get("timeout", "300")))
            continue
        if cur is None:
            continue
        m = _CL.match(line)
        if m:
            cur["clause"] = (cur["clause"] + " " + m.group(1)).strip()
            continue
        m = _FN.match(line)
        if m:
            cur["fns"] += m.group(1).split()
            continue
        m = _BOUND.match(line)
        if m:
            cur["bound"] = m.group(1).strip()
            continue
        m = _FNDEF.match(line)
        if m:
            cur["engine"] = "kani"
            hname = m.group(1) or m.group(2)
            cur["harness"] = hname
            cur["full_name"] = unit["mod_path"] + "::" + hname
            cur["pkg"] = unit["pkg"]
            cur["unit"] = unit["harness"]
            cur["src_line"] = ln
            if cur["kind"] == "bounded" and not cur["bound"]:
                raise Undecided("%s:%d: bounded obligation %s lacks @bound" % (unit["harness"], ln, cur["id"]))
            obs.append(cur)
            cur = None
    if cur is not None:
        raise Undecided("%s: dangling @ob %s" % (unit["harness"], cur.get("id")))
    return obs


def all_kani_obligations():
    obs = []
    seen = {}
    for u in kani_units():
        for o in parse_harness_file(u):
            if o["id"] in seen:
                raise Undecided("duplicate obligation id %s" % o["id"])
            seen[o["id"]] = 1
            obs.append(o)
    return obs


def verus_units():
    units = []
    if not os.path.isdir(VERUS_DIR):
        return units
    for d in sorted(os.listdir(VERUS_DIR)):
        p = os.path.join(VERUS_DIR, d, "unit.json")
        if os.path.exists(p):
            with open(p) as f:
                u = json.load(f)
            u["dir"] = os.path.join(VERUS_DIR, d)
            u["name"] = d
            units.append(u)
    return units


def select(prop, tier):
    """Obligations of one property for a tier (thorough includes quick)."""
    out = []
    for o in all_kani_obligations():
        if prop in o["props"] and (tier == "thorough" or o["tier"] == "quick"):
            out.append(o)
    vunits = [u for u in verus_units() if prop in u["props"] and (tier == "thorough" or u.get("tier", "quick") == "quick")]
    return out, vunits
