"""Shared paths, logging and small helpers for the /verif machinery."""
import hashlib
import json
import os
import sys
import time

VERIF = os.path.dirname(os.path.dirname(os.path.abspath(__file__)))
REPO = os.environ.get("VERIF_REPO", "/repo")
CACHE = os.path.join(VERIF, ".cache")
CONTRACTS = os.path.join(VERIF, "contracts")
EVIDENCE = os.path.join(VERIF, "evidence")
REPLAYS = os.path.join(VERIF, "replays")
FINDINGS = os.path.join(VERIF, "known_findings.json")
SLOT = os.environ.get("VERIF_SLOT", "main")
SCRATCH_ROOT = os.environ.get("VERIF_SCRATCH", "/var/tmp/verif-scratch-" + SLOT)

# exit codes
EXIT_OK = 0
EXIT_VIOLATION = 1
EXIT_UNDECIDED = 2


class Undecided(Exception):
    """Infrastructure / tool-limit outcome: exit 2, never an alarm."""


def log(*a):
    print("[verif]", *a, file=sys.stderr, flush=True)


def sha256_bytes(b: bytes) -> str:
    return hashlib.sha256(b).hexdigest()


def sha256_file(p: str) -> str:
    with open(p, "rb") as f:
        return sha256_bytes(f.read())


def read_json(p, default=None):
    try:
        with open(p) as f:
            return json.load(f)
    except FileNotFoundError:
        return default


def write_json(p, obj):
    os.makedirs(os.path.dirname(p), exist_ok=True)
    tmp = p + ".tmp%d" % os.getpid()
    with open(tmp, "w") as f:
        json.dump(obj, f, indent=1, sort_keys=False)
        f.write("\n")
    os.replace(tmp, p)


class Timer:
    def __init__(self):
        self.t0 = time.time()

    def s(self):
        return round(time.time() - self.t0, 3)
