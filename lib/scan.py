"""Mechanical scan of every contract / harness / spec file for assumption-introducing constructs.
Every hit is listed in the evidence; a stub or assumed specification whose target is not in the
reviewed allow-list (contracts/trusted.json) makes the run undecided (exit 2)."""
import os
import re

from common import CONTRACTS, Undecided, read_json

PATTERNS = [
    ("kani::stub", re.compile(r"kani::stub\(\s*([^,\s]+)")),
    ("kani::stub_verified", re.compile(r"kani::stub_verified\(\s*([^)\s]+)")),
    ("kani::assume", re.compile(r"kani::assume\(")),
    ("assume_specification", re.compile(r"assume_specification\s*(?:<[^>]*>)?\s*\[\s*(.+?)\s*\]\s*\(")),
    ("external_body", re.compile(r"external_body")),
    ("verifier::external", re.compile(r"verifier::external")),
    ("admit", re.compile(r"\badmit\(")),
    ("assume", re.compile(r"(?<![:\w])assume\(")),
    ("unsafe", re.compile(r"\bunsafe\b")),
]


def scan_assumptions(only=None):
    """only: set of paths relative to /verif/contracts whose hits are REPORTED (the allow-list check always covers everything)."""
    trusted = read_json(os.path.join(CONTRACTS, "trusted.json"), {}) or {}
    allow_stub = set(trusted.get("stubs", []))
    allow_spec = set(trusted.get("assume_specification", []))
    allow_ext = set(trusted.get("external_body_files", []))
    items = []
    counts = {}
    bad = []
    for d, _, files in os.walk(CONTRACTS):
        for fn in sorted(files):
            if not fn.endswith((".rs", ".tpl", ".contracts")):
                continue
            p = os.path.join(d, fn)
            rel = os.path.relpath(p, CONTRACTS)
            with open(p) as f:
                for ln, line in enumerate(f, 1):
                    s = line.strip()
                    if s.startswith("// ") and "@" not in s[:6]:
                        pass
                    for kind, rx in PATTERNS:
                        m = rx.search(line)
                        if not m or s.startswith("//"):
                            continue
                        tgt = m.group(1).strip() if m.groups() else ""
                        reported = only is None or rel in only
                        if reported:
                            counts[kind] = counts.get(kind, 0) + 1
                        if kind == "kani::stub" and tgt not in allow_stub:
                            bad.append("%s:%d stub of %s is not in contracts/trusted.json" % (rel, ln, tgt))
                        if kind == "assume_specification" and tgt not in allow_spec:
                            bad.append("%s:%d assume_specification[%s] is not in contracts/trusted.json" % (rel, ln, tgt))
                        if kind in ("external_body", "verifier::external", "admit", "assume") and rel not in allow_ext:
                            bad.append("%s:%d %s outside the allow-listed files" % (rel, ln, kind))
                        if reported and kind in ("kani::stub", "assume_specification", "external_body", "verifier::external", "admit", "assume", "kani::stub_verified"):
                            items.append("%s:%d %s %s" % (rel, ln, kind, tgt))
    if bad:
        raise Undecided("assumption scan: " + "; ".join(bad[:5]))
    summary = ["assumption scan of this property's contract files: " + ", ".join("%s x%d" % kv for kv in sorted(counts.items()))]
    return {"items": sorted(set(items)), "summary": summary, "counts": counts}
