"""Engine N: bounded stand-ins by native enumeration.

For functions that neither Kani/CBMC nor Verus can be brought to (String / BigInt / core::fmt heavy code, measured
in DESIGN.md section 1) the brief allows "a bounded check of that function with a stated bound ... labelled bounded
and never counted as proved".  A unit here is such a stand-in: the real function is compiled natively from the
snapshot of /repo and run on EVERY input of a stated finite domain; the executable postcondition is evaluated on each
result (for the "equals Python's" properties the postcondition's right-hand side is computed by the installed
CPython itself).  Nothing here is a proof and nothing here is counted as one.

contracts/native/units.json: [{id, props, tier, pkg, crate, features, dir, clause, fns, bound}]
contracts/native/<dir>/test.rs     integration test copied to <crate>/tests/verif_native_<name>.rs; reads/writes files in
                                   the directory named by $VERIF_NATIVE_DIR; catches panics of the code under test
contracts/native/<dir>/driver.py   `prepare <dir>` writes the inputs, `judge <dir>` prints
                                   {"evaluated": n, "mismatches": [{"input":..,"expected":..,"got":..}, ...]}
"""
import fcntl
import json
import os
import shutil
import subprocess
import sys
import time

sys.path.insert(0, os.path.dirname(os.path.abspath(__file__)))
from common import CACHE, CONTRACTS, REPO, SCRATCH_ROOT, SLOT, Undecided, log, read_json, sha256_bytes, sha256_file, write_json

NATIVE_DIR = os.path.join(CONTRACTS, "native")
TARGET_DIR = os.path.join(CACHE, "native-target-" + SLOT)
WORK_ROOT = os.path.join(CACHE, "native-work-" + SLOT)
RESULT_CACHE = os.path.join(CACHE, "results")
ENV = dict(os.environ, CARGO_NET_OFFLINE="true")
_ENGINE_HASH = sha256_file(os.path.abspath(__file__))
PYTHON = sys.executable or "python3"


def units():
    us = read_json(os.path.join(NATIVE_DIR, "units.json"), []) or []
    for u in us:
        u["path"] = os.path.join(NATIVE_DIR, u["dir"])
        u["name"] = u["dir"].replace("/", "_")
    return us


def select(prop, tier):
    out = []
    for u in units():
        if prop not in u["props"]:
            continue
        if u.get("tier", "quick") == "thorough" and tier != "thorough":
            continue
        # a unit may come in two sizes: the thorough one replaces the quick one
        if tier == "thorough" and any(v.get("replaces") == u["id"] and prop in v["props"] for v in units()):
            continue
        out.append(u)
    return out


def _tree_hash(root):
    """Content hash of the copy; also makes cargo's mtime-based freshness check content-based: a file whose content is
    the one recorded at the previous build in this target directory keeps the recorded mtime, anything else is 'now'
    (otherwise a file restored with an OLD mtime - git stash, rsync -a, cp -p - would not be recompiled and the unit
    would judge a stale binary)."""
    rec_path = os.path.join(TARGET_DIR, "verif-mtimes.json")
    rec = read_json(rec_path, {}) or {}
    new = {}
    now = time.time()
    h = []
    for d, dirs, files in os.walk(root):
        dirs[:] = sorted(x for x in dirs if x not in ("target", ".git"))
        for fn in sorted(files):
            p = os.path.join(d, fn)
            if os.path.islink(p):
                continue
            rel = os.path.relpath(p, root)
            sha = sha256_file(p)
            h.append(rel + ":" + sha)
            old = rec.get(rel)
            mt = old[1] if old and old[0] == sha else now
            os.utime(p, (mt, mt))
            new[rel] = [sha, mt]
    os.makedirs(TARGET_DIR, exist_ok=True)
    write_json(rec_path, new)
    return sha256_bytes("\n".join(h).encode())


class NativeCopy:
    """A plain copy of /repo (no Kani injection) shared by the native units of one run."""

    def __init__(self):
        self.root = os.path.join(SCRATCH_ROOT + "-native", "repo")
        self.hash = None

    def __enter__(self):
        os.makedirs(self.root, exist_ok=True)
        self.lock = open(os.path.dirname(self.root) + ".lock", "w")
        fcntl.flock(self.lock, fcntl.LOCK_EX)
        r = subprocess.run(["rsync", "-a", "--delete", "--exclude", "/target", "--exclude", ".git", REPO.rstrip("/") + "/", self.root + "/"],
                           capture_output=True, text=True)
        if r.returncode != 0:
            raise Undecided("native copy: rsync failed: " + r.stderr[-300:])
        self.hash = _tree_hash(self.root)
        return self

    def __exit__(self, *exc):
        if not os.environ.get("VERIF_KEEP_SCRATCH"):
            shutil.rmtree(os.path.dirname(self.root), ignore_errors=True)
        fcntl.flock(self.lock, fcntl.LOCK_UN)
        self.lock.close()


def _cache_path(copy_hash, u):
    files = sorted(os.listdir(u["path"]))
    key = sha256_bytes(("%s|%s|%s|%s|%s" % (_ENGINE_HASH, os.environ.get("VERIF_NATIVE_SIZE", "quick"), copy_hash, u["id"], "|".join(f + ":" + sha256_file(os.path.join(u["path"], f)) for f in files if os.path.isfile(os.path.join(u["path"], f))))).encode())
    return os.path.join(RESULT_CACHE, "native-" + key + ".json")


def run_unit(copy, u, use_cache=True):
    """Returns {verdict: pass|fail|undecided, evaluated, mismatches, time_s, reason}."""
    cp = _cache_path(copy.hash, u)
    c = read_json(cp) if use_cache else None
    if c is not None:
        c["cached"] = True
        return c
    t0 = time.time()
    work = os.path.join(WORK_ROOT, u["name"])
    shutil.rmtree(work, ignore_errors=True)
    os.makedirs(work)
    driver = os.path.join(u["path"], "driver.py")
    log("native: %s (%s)" % (u["id"], u["bound"][:70]))
    r = subprocess.run([PYTHON, driver, "prepare", work], capture_output=True, text=True)
    if r.returncode != 0:
        return {"verdict": "undecided", "reason": "driver prepare failed: " + (r.stderr or r.stdout)[-300:], "cached": False}
    tdir = os.path.join(copy.root, u["crate"], "tests")
    made_dir = not os.path.isdir(tdir)
    os.makedirs(tdir, exist_ok=True)
    tname = "verif_native_" + u["name"]
    tfile = os.path.join(tdir, tname + ".rs")
    shutil.copy(os.path.join(u["path"], "test.rs"), tfile)
    try:
        cmd = ["cargo", "test", "--release", "--offline", "-p", u["pkg"], "--test", tname]
        if u.get("features"):
            cmd += ["--features", u["features"]]
        cmd += ["--", "--nocapture"]
        # optimised, but with the checks of a debug build: arithmetic overflow panics (C03: "never overflow arithmetic")
        # and debug_assert! (e.g. the linear locator's cross-check against the line index) stays in
        env = dict(ENV, VERIF_NATIVE_DIR=work, CARGO_TARGET_DIR=TARGET_DIR, RUST_BACKTRACE="0",
                   RUSTFLAGS="-C overflow-checks=on -C debug-assertions=on")
        r = subprocess.run(cmd, cwd=copy.root, env=env, capture_output=True, text=True, timeout=int(u.get("timeout", 1800)))
        if r.returncode != 0:
            tail = (r.stdout + r.stderr)[-1200:]
            kind = "does not compile against the current tree" if "error[" in tail or "could not compile" in tail else "test driver failed"
            return {"verdict": "undecided", "reason": "native unit %s %s: %s" % (u["id"], kind, tail[-400:]), "cached": False}
    except subprocess.TimeoutExpired:
        return {"verdict": "undecided", "reason": "native unit %s timed out" % u["id"], "cached": False}
    finally:
        try:
            os.remove(tfile)
            if made_dir:
                os.rmdir(tdir)
        except OSError:
            pass
    r = subprocess.run([PYTHON, driver, "judge", work], capture_output=True, text=True)
    if r.returncode != 0:
        return {"verdict": "undecided", "reason": "driver judge failed: " + (r.stderr or r.stdout)[-400:], "cached": False}
    try:
        res = json.loads(r.stdout.strip().split("\n")[-1])
    except Exception:
        return {"verdict": "undecided", "reason": "driver judge printed no JSON: " + r.stdout[-300:], "cached": False}
    out = {"verdict": "pass" if not res["mismatches"] and res["evaluated"] > 0 else ("fail" if res["mismatches"] else "undecided"),
           "evaluated": res["evaluated"], "mismatches": res["mismatches"][:25], "mismatch_count": res.get("mismatch_count", len(res["mismatches"])),
           "all_inputs": res.get("all_inputs"),
           "time_s": round(time.time() - t0, 1), "cached": False}
    if out["verdict"] == "undecided":
        out["reason"] = "native unit %s evaluated nothing" % u["id"]
    if out["verdict"] in ("pass", "fail"):
        write_json(cp, out)
    if not os.environ.get("VERIF_KEEP_SCRATCH"):
        shutil.rmtree(work, ignore_errors=True)
    return out
