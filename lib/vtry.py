#!/usr/bin/env python3
"""Developer helper: build a Verus unit and show the verifier's raw messages."""
import sys, os, subprocess
sys.path.insert(0, os.path.dirname(os.path.abspath(__file__)))
import verus_engine, registry
name = sys.argv[1]
u = [x for x in registry.verus_units() if x['name'] == name][0]
r = verus_engine.run_unit(u, use_cache=False)
for o in r['obligations']:
    print(o['id'], o['verdict'], o.get('reason') or '', [(c['description'], c['line']) for c in o.get('failed_checks', [])])
print("verified", r['verified'], "errors", r['errors'])
