"""Engine V: Verus on functions extracted mechanically from /repo on every run (DESIGN 2.2).

A unit is a directory contracts/verus/<unit>/ with
  unit.json      props, tier, obligations [{id, function, kind, clause, fns}], twin obligations
  unit.rs.tpl    a Verus file in which `//@@ EXTRACT ... //@@ END` blocks are replaced by items copied
                 from /repo's working tree.  Inside a block:
      //@@ EXTRACT file=<repo path> anchor=<<<first line of the item, exact after strip>>> [nth=k]
      //@@ SIGSUB <<<old>>> ==> <<<new>>>      rewrite applied to the REAL signature before the comparison below
      //@@ SIG                                  the Verus signature: head + requires/ensures (until ENDSIG).  The head, with
      ...                                       `-> (name: T)` read as `-> T`, must equal the real signature (visibility and
      //@@ ENDSIG                               #[attributes] dropped) - otherwise the run is undecided (exit 2)
      //@@ SUB <count> <<<old>>> ==> <<<new>>>  literal rewrite of the body; must match exactly <count> times (rules R3-R8)
      //@@ AFTER <nth> <<<line>>>               the lines up to ENDAFTER are inserted after the nth body line equal to <line>
      ...                                       (loop invariants, decreases, proof blocks: ghost text only)
      //@@ ENDAFTER
      //@@ END
Everything else in the extracted item is passed to Verus untouched.
"""
import os
import re
import subprocess
import time

from common import CACHE, REPO, Undecided, log, read_json, sha256_bytes, write_json

VERUS_VERSION = "verus-0.2026.09.13"
_ARG = re.compile(r"<<<(.*?)>>>(?!>)")
_SPEC_KW = ("requires", "ensures", "decreases", "recommends", "opens_invariants", "no_unwind", "returns")

BOUNDARY = ("postcondition not satisfied", "precondition not satisfied", "possible arithmetic underflow/overflow",
            "possible arithmetic overflow", "possible arithmetic underflow", "possible division by zero", "index out of bounds",
            "possible bit shift underflow/overflow", "recommendation not met", "unreachable", "possible truncation")
INTERNAL = ("invariant not satisfied", "assertion failed", "decreases not satisfied", "could not prove termination",
            "loop invariant", "assert_by", "assertion might fail")


def _norm(s):
    # whitespace and rustfmt's trailing comma of a multi-line parameter list carry no meaning
    return re.sub(r",\)", ")", re.sub(r"\s+", "", s))


def _match_brace(lines, start):
    """Index of the line holding the brace that closes the first `{` at or after lines[start]."""
    depth = 0
    seen = False
    i = start
    in_block_comment = False
    while i < len(lines):
        line = lines[i]
        j = 0
        in_str = False
        while j < len(line):
            ch = line[j]
            nxt = line[j + 1] if j + 1 < len(line) else ""
            if in_block_comment:
                if ch == "*" and nxt == "/":
                    in_block_comment = False
                    j += 1
            elif in_str:
                if ch == "\\":
                    j += 1
                elif ch == '"':
                    in_str = False
            elif ch == "/" and nxt == "/":
                break
            elif ch == "/" and nxt == "*":
                in_block_comment = True
                j += 1
            elif ch == '"':
                in_str = True
            elif ch == "'":
                # char literal or lifetime: skip 'x' / '\x' forms
                m = re.match(r"'(\\.[^']*|[^'\\])'", line[j:])
                if m:
                    j += len(m.group(0)) - 1
            elif ch == "{":
                depth += 1
                seen = True
            elif ch == "}":
                depth -= 1
                if seen and depth == 0:
                    return i
            j += 1
        i += 1
    raise Undecided("extraction: unbalanced braces")


def _extract_block(block, unit_name, rewrites):
    head = block[0]
    m = re.search(r"file=(\S+)", head)
    a = _ARG.search(head)
    if not m or not a:
        raise Undecided("%s: malformed EXTRACT line: %s" % (unit_name, head))
    relfile, anchor = m.group(1), a.group(1).strip()
    nthm = re.search(r"nth=(\d+)", head)
    nth = int(nthm.group(1)) if nthm else None
    path = os.path.join(REPO, relfile)
    if not os.path.exists(path):
        raise Undecided("lost anchor: %s is gone" % relfile)
    with open(path) as f:
        src = f.read().split("\n")
    idx = [i for i, l in enumerate(src) if l.strip() == anchor]
    if nth is None:
        if len(idx) != 1:
            raise Undecided("lost anchor: %r matches %d times in %s" % (anchor, len(idx), relfile))
        start = idx[0]
    else:
        if len(idx) < nth:
            raise Undecided("lost anchor: %r occurrence %d not in %s" % (anchor, nth, relfile))
        start = idx[nth - 1]
    end = _match_brace(src, start)
    item = src[start:end + 1]
    # split signature / body at the line that opens the body
    k = 0
    while k < len(item) and not item[k].rstrip().endswith("{"):
        k += 1
    if k == len(item):
        raise Undecided("extraction: no body for %r" % anchor)
    real_sig = " ".join(l.strip() for l in item[:k + 1])
    real_sig = real_sig.rstrip()[:-1]  # drop "{"
    body = item[k + 1:-1]
    closing = item[-1]

    sig = None
    sigsubs = []
    blocksubs = []
    subs = []
    resubs = []
    inserts = []
    names = []
    i = 1
    while i < len(block):
        line = block[i]
        s = line.strip()
        if s.startswith("//@@ NAME"):
            # //@@ NAME x <<<regex with one group>>> : $x$ in the inserted proof text stands for whatever the code
            # calls that local, so that renaming a local does not lose the proof
            names.append((s.split()[2], _ARG.search(line).group(1).strip()))
        elif s.startswith("//@@ SIGSUB"):
            parts = _ARG.findall(line)
            sigsubs.append((parts[0], parts[1]))
        elif s.startswith("//@@ SIG"):
            j = i + 1
            sig = []
            while not block[j].strip().startswith("//@@ ENDSIG"):
                sig.append(block[j])
                j += 1
            i = j
        elif s.startswith("//@@ SUBBLOCK"):
            cnt = int(s.split()[2])
            j = i + 1
            old_l, new_l = [], []
            while not block[j].strip().startswith("//@@ WITH"):
                old_l.append(block[j].strip())
                j += 1
            j += 1
            while not block[j].strip().startswith("//@@ ENDSUB"):
                new_l.append(block[j])
                j += 1
            blocksubs.append((cnt, old_l, new_l))
            i = j
        elif s.startswith("//@@ SUBRE"):
            # regular-expression rewrite (same rule, whatever the index expressions are); count must match
            cnt = s.split()[2]  # "n" or "lo-hi" (a rule that may or may not be needed, e.g. a conjunct)
            parts = _ARG.findall(line)
            resubs.append((cnt, parts[0], parts[1]))
        elif s.startswith("//@@ SUB"):
            cnt = int(s.split()[2])
            parts = _ARG.findall(line)
            subs.append((cnt, parts[0], parts[1]))
        elif s.startswith("//@@ AFTER") or s.startswith("//@@ BEFORE"):
            kind = s.split()[1]
            nth_i = int(s.split()[2])
            target = _ARG.search(line).group(1).strip()
            j = i + 1
            text = []
            while not block[j].strip().startswith("//@@ END" + kind):
                text.append(block[j])
                j += 1
            inserts.append((kind, nth_i, target, text))
            i = j
        elif s.startswith("//@@ KEEPSIG"):
            sig = "KEEP"
        i += 1

    out = []
    if sig is None or sig == "KEEP":
        # type definitions / plain items: copied with R1/R2 only
        for l in item[:k + 1]:
            out.append(l)
    else:
        # check the Verus head against the real signature
        headlines = []
        for l in sig:
            if l.strip().split("(")[0].split(" ")[0].rstrip(",") in _SPEC_KW or l.strip().startswith(_SPEC_KW):
                break
            headlines.append(l)
        vhead = " ".join(l.strip() for l in headlines)
        vhead_n = re.sub(r"->\s*\(\s*[A-Za-z_][A-Za-z0-9_]*\s*:\s*(.*)\)\s*$", r"-> \1", vhead.strip())
        rs = real_sig
        rs = re.sub(r"^(pub(\([a-z]+\))?\s+)", "", rs.strip())
        for old, new in sigsubs:
            if old not in rs:
                raise Undecided("lost anchor: signature rewrite %r does not apply to %r" % (old, rs))
            rs = rs.replace(old, new)
            rewrites.append("%s: signature: %s => %s" % (anchor[:40], old, new))
        if _norm(vhead_n) != _norm(rs):
            raise Undecided("lost anchor: signature of %r changed: real %r vs contract %r" % (anchor[:50], rs, vhead_n))
        out += sig
        out.append("{")
    btxt = "\n".join(body)
    bound = {}
    for nm, rx in names:
        found = set(re.findall(rx, btxt))
        if len(found) != 1:
            raise Undecided("lost anchor: name pattern %r matches %d different names (in %s)" % (rx, len(found), anchor[:50]))
        bound[nm] = found.pop()
        rewrites.append("%s: proof text refers to the local `%s` as $%s$" % (anchor[:40], bound[nm], nm))

    def _names(t):
        for nm, val in bound.items():
            t = t.replace("$" + nm + "$", val)
        return t
    if bound:
        subs = [(c, _names(o), _names(n)) for c, o, n in subs]
        blocksubs = [(c, [_names(x) for x in o], [_names(x) for x in n]) for c, o, n in blocksubs]
        inserts = [(k_, n_, _names(t_), [_names(x) for x in tx]) for k_, n_, t_, tx in inserts]
    for cnt, old, new in subs:
        c = btxt.count(old)
        if c != cnt:
            raise Undecided("lost anchor: rewrite %r expected %d matches, found %d (in %s)" % (old, cnt, c, anchor[:50]))
        btxt = btxt.replace(old, new)
        rewrites.append("%s: %s => %s (x%d)" % (anchor[:40], old, new, cnt))
    for cnt, rx, new in resubs:
        c = len(re.findall(rx, btxt))
        lo, hi = (int(cnt.split("-")[0]), int(cnt.split("-")[1])) if "-" in cnt else (int(cnt), int(cnt))
        if not lo <= c <= hi:
            raise Undecided("lost anchor: regex rewrite %r expected %s matches, found %d (in %s)" % (rx, cnt, c, anchor[:50]))
        btxt = re.sub(rx, new, btxt)
        rewrites.append("%s: regex %s => %s (x%d)" % (anchor[:40], rx, new, c))
    blines = btxt.split("\n")
    for cnt, old_l, new_l in blocksubs:
        hits = [q for q in range(len(blines) - len(old_l) + 1)
                if [x.strip() for x in blines[q:q + len(old_l)]] == old_l]
        if len(hits) != cnt:
            raise Undecided("lost anchor: block rewrite starting %r expected %d matches, found %d (in %s)" % (old_l[0], cnt, len(hits), anchor[:50]))
        for q in reversed(hits):
            blines[q:q + len(old_l)] = new_l
        rewrites.append("%s: block %s ... => %s (x%d)" % (anchor[:40], old_l[0], " ".join(x.strip() for x in new_l)[:80], cnt))
    for kind, nth_i, target, text in inserts:
        if target.startswith("re:"):
            pos = [q for q, l in enumerate(blines) if re.fullmatch(target[3:], l.strip())]
        else:
            pos = [q for q, l in enumerate(blines) if l.strip() == target]
        if len(pos) < nth_i:
            raise Undecided("lost anchor: insertion point %r #%d not found in %s" % (target, nth_i, anchor[:50]))
        at = pos[nth_i - 1] + (1 if kind == "AFTER" else 0)
        blines[at:at] = text
    # R1/R2: visibility, attributes and doc comments have no run-time meaning
    cleaned = []
    for l in out + blines + [closing]:
        st = l.strip()
        if st.startswith("///") or st.startswith("#[inline") or st.startswith("#[must_use") or st.startswith("#[allow") or st.startswith("#[cold"):
            continue
        l = re.sub(r"^(\s*)pub(\([a-z]+\))?\s+", r"\1", l)
        cleaned.append(l)
    return cleaned, relfile, anchor


def _spec_item(tpl_lines, head):
    """Text of the template item whose first line starts with `head` (brace matched, whitespace normalised)."""
    for q, l in enumerate(tpl_lines):
        if l.strip().startswith(head):
            return _norm("\n".join(tpl_lines[q:_match_brace(tpl_lines, q) + 1]))
    return None


def build_unit(unit):
    with open(os.path.join(unit["dir"], "unit.rs.tpl")) as f:
        tpl = f.read().split("\n")
    # definitions shared with another unit (a theorem that connects two units' contracts) must be the same text
    for same in unit.get("same_text", []):
        with open(os.path.join(os.path.dirname(unit["dir"]), same["unit"], "unit.rs.tpl")) as f:
            other = f.read().split("\n")
        for head in same["items"]:
            a, b = _spec_item(tpl, head), _spec_item(other, head)
            if a is None or b is None or a != b:
                raise Undecided("unit %s: definition %r differs from the one in unit %s" % (unit["name"], head, same["unit"]))
    out = []
    rewrites = []
    extracted = []
    i = 0
    while i < len(tpl):
        line = tpl[i]
        if line.strip().startswith("//@@ EXTRACT"):
            j = i
            while not (tpl[j].strip() == "//@@ END"):
                j += 1
                if j >= len(tpl):
                    raise Undecided("%s: EXTRACT without END" % unit["name"])
            code, relfile, anchor = _extract_block(tpl[i:j], unit["name"], rewrites)
            out.append("// ---- extracted from %s: %s" % (relfile, anchor))
            out += code
            out.append("// ---- end of extracted item")
            extracted.append("%s: %s" % (relfile, anchor))
            i = j + 1
            continue
        out.append(line)
        i += 1
    return "\n".join(out) + "\n", rewrites, extracted


def run_unit(unit, snap=None, use_cache=True):
    text, rewrites, extracted = build_unit(unit)
    key = sha256_bytes((VERUS_VERSION + text).encode())
    cpath = os.path.join(CACHE, "verus-results", key + ".json")
    wd = os.path.join(CACHE, "verus-work", os.environ.get("VERIF_SLOT", "main"))  # one work file per slot: concurrent runs on different trees must not share it
    os.makedirs(wd, exist_ok=True)
    src = os.path.join(wd, unit["name"] + ".rs")
    with open(src, "w") as f:
        f.write(text)
    res = read_json(cpath) if use_cache else None
    if res is None:
        t0 = time.time()
        cmd = ["verus", src, "--output-json", "--time", "--multiple-errors", "20", "--rlimit", str(unit.get("rlimit", 60))]
        log("verus:", unit["name"])
        try:
            p = subprocess.run(cmd, capture_output=True, text=True, timeout=unit.get("timeout", 900), cwd=wd)
        except subprocess.TimeoutExpired:
            raise Undecided("verus timeout on unit %s" % unit["name"])
        wall = time.time() - t0
        import json
        try:
            data = json.loads(p.stdout)
        except Exception:
            data = None
        res = {"stdout_json": data, "stderr": p.stderr[-20000:], "rc": p.returncode, "wall": wall, "cmd": " ".join(cmd)}
        if data is not None:
            write_json(cpath, res)
        res["cached"] = False
    else:
        res["cached"] = True
    return _classify(unit, res, rewrites, extracted, text)


def _fn_spans(text):
    """(name, first line, last line) of every fn in the generated file.  The body of a function whose
    header carries requires/ensures (which may contain braces) starts at the first line that is just
    `{`; one-line functions fall back to plain brace matching."""
    lines = text.split("\n")
    spans = []
    rx = re.compile(r"^\s*(?:pub\s+)?(?:open\s+|closed\s+)?(?:proof\s+|spec\s+|exec\s+)?(?:const\s+)?fn\s+([A-Za-z0-9_]+)")
    starts = [i for i, l in enumerate(lines) if rx.match(l)]
    for k, i in enumerate(starts):
        m = rx.match(lines[i])
        nxt = starts[k + 1] if k + 1 < len(starts) else len(lines)
        body = None
        if not lines[i].rstrip().endswith("}"):
            for j in range(i, nxt):
                if lines[j].strip() == "{":
                    body = j
                    break
        try:
            e = _match_brace(lines, body if body is not None else i)
        except Undecided:
            e = i
        spans.append((m.group(1), i + 1, e + 1))
    return spans


def _classify(unit, res, rewrites, extracted, text):
    data = res["stdout_json"]
    obs = []
    if data is None:
        raise Undecided("verus produced no JSON for %s: %s" % (unit["name"], res["stderr"][-400:]))
    vr = data["verification-results"]
    if vr.get("encountered-vir-error"):
        raise Undecided("verus rejected unit %s (unsupported construct / syntax): %s" % (unit["name"], _first_error(res["stderr"])))
    # collect errors: (kind text, line)
    errs = []
    for m in re.finditer(r"^error(?:\[[A-Z0-9]+\])?: (.*)\n\s+--> [^:]+:(\d+):\d+", res["stderr"], re.M):
        errs.append((m.group(1).strip(), int(m.group(2))))
    if vr.get("encountered-error") and not errs and not vr.get("errors"):
        raise Undecided("verus failed on unit %s: %s" % (unit["name"], _first_error(res["stderr"])))
    # rust compile errors (not verification failures) => undecided
    for e, _ in errs:
        if not any(e.startswith(b) for b in BOUNDARY + INTERNAL) and "rlimit" not in e.lower() and "resource limit" not in e.lower():
            if vr.get("verified", 0) == 0 and vr.get("errors", 0) == 0:
                raise Undecided("verus could not compile unit %s: %s" % (unit["name"], e))
    spans = _fn_spans(text)
    per_fn = {}
    try:
        for mod in data["times-ms"]["smt"]["smt-run-module-times"]:
            for fb in mod.get("function-breakdown", []):
                per_fn[fb["function"].split("::")[-1]] = fb
    except Exception:
        pass

    def errs_in(fn):
        out = []
        for name, a, b in spans:
            if name == fn:
                out += [(e, l) for e, l in errs if a <= l <= b]
        return out

    for o in unit["obligations"]:
        fn = o["function"]
        fe = errs_in(fn)
        fb = per_fn.get(fn)
        rec = {"id": o["id"], "engine": "verus", "kind": o.get("kind", "unbounded"), "harness": unit["name"] + "::" + fn,
               "clause": o.get("clause", ""), "functions": o.get("fns", []), "bound": None, "checks": 1,
               "covers_satisfied": None, "verification_time_s": (fb or {}).get("time", 0) / 1000.0 if fb else None,
               "solver_s": (fb or {}).get("time", 0) / 1000.0 if fb else None, "rlimit": (fb or {}).get("rlimit") if fb else None,
               "cached": res.get("cached", False), "extracted_from": extracted, "rewrites": rewrites}
        item = {"id": o["id"], "record": rec, "canary": o.get("kind") == "canary"}
        if not any(name == fn for name, _, _ in spans):
            raise Undecided("unit %s: function %s not found in generated file" % (unit["name"], fn))
        rl = [e for e, _ in fe if "rlimit" in e.lower() or "resource limit" in e.lower()]
        if o.get("kind") == "canary":
            if fe and not rl:
                rec["verdict"] = "canary-failed-as-required"
                item["verdict"] = "pass"
            else:
                item["verdict"] = "undecided"
                item["reason"] = "verus canary %s did not fail" % fn
                rec["verdict"] = "undecided"
            obs.append(item)
            continue
        if not fe:
            if fb is not None and fb.get("success") is False:
                item["verdict"] = "undecided"
                item["reason"] = "verus reports %s unsuccessful without a located error" % fn
            else:
                item["verdict"] = "pass"
        elif rl:
            item["verdict"] = "undecided"
            item["reason"] = "solver resource limit in %s" % fn
        else:
            tlines = text.split("\n")
            def _is_lemma_call(l):
                # the precondition of a lemma invoked in inserted proof text is a proof step, not a contract of the code
                return 0 < l <= len(tlines) and re.match(r"\s*(if [^{]*\{\s*)?lemma_\w+\(", tlines[l - 1]) is not None
            boundary = [e for e, l in fe if any(e.startswith(b) for b in BOUNDARY)
                        and not (e.startswith("precondition not satisfied") and _is_lemma_call(l))]
            item["failed_checks"] = [{"description": e, "function": fn, "file": unit["name"] + ".rs", "line": l, "category": "verus"} for e, l in fe[:8]]
            item["output"] = _errors_for(res["stderr"], [l for _, l in fe])
            if boundary:
                item["verdict"] = "fail"
            else:
                # proof-internal obligation: a failed proof is not a refutation (DESIGN 2.2)
                item["verdict"] = "internal"
                item["reason"] = "proof-internal obligation failed in %s: %s" % (fn, fe[0][0])
        rec["verdict"] = item["verdict"]
        obs.append(item)
    return {"obligations": obs, "wall": res.get("wall"), "rewrites": rewrites, "extracted": extracted,
            "verified": vr.get("verified"), "errors": vr.get("errors")}


def _first_error(stderr):
    m = re.search(r"^error.*$", stderr, re.M)
    return (m.group(0) if m else stderr[-300:])[:400]


def _errors_for(stderr, lines):
    chunks = re.split(r"\n(?=error)", stderr)
    keep = [c for c in chunks if c.startswith("error") and "aborting due to" not in c]
    return "\n".join(keep)[:6000]
