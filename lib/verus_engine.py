"""Engine V placeholder (filled in later)."""
from common import Undecided


def run_unit(unit, snap, use_cache=True):
    raise Undecided("verus engine not built yet")
