"""Engine K: Kani on a scratch snapshot of the real crates.

Steps (DESIGN 2.1): snapshot /repo's working tree -> inject harness child modules and
contract attributes (nothing of the repository's code is rewritten) -> one `cargo kani`
invocation per package -> classify each harness from Kani's JSON export -> for a failed
obligation obtain the concrete counterexample and replay it natively on the real code.
"""
import fcntl
import json
import os
import re
import shutil
import subprocess
import threading
import time

from common import (CACHE, REPO, SCRATCH_ROOT, SLOT, VERIF, Undecided, log, read_json,
                    sha256_bytes, sha256_file, write_json)
import registry

KANI_VERSION = "kani-0.68.0/cbmc-6.11.0"
TARGET_DIR = os.path.join(CACHE, "kani-target-" + SLOT)
PLAYBACK_TARGET_DIR = os.path.join(CACHE, "kani-playback-" + SLOT)
RESULT_CACHE = os.path.join(CACHE, "results")
KANI_FLAGS = ["-Z", "function-contracts", "-Z", "stubbing", "-Z", "unstable-options"]
ENV = dict(os.environ, CARGO_NET_OFFLINE="true")
JOBS = int(os.environ.get("VERIF_JOBS", "12"))


class Snapshot:
    def __init__(self):
        self.root = SCRATCH_ROOT
        self.repo = os.path.join(self.root, "repo")
        self.lock = None
        self.tree_hash = None
        self.injected = []

    # -- lifecycle ---------------------------------------------------------
    def __enter__(self):
        os.makedirs(os.path.dirname(self.root) or "/", exist_ok=True)
        self.lock = open(self.root + ".lock", "w")
        log("waiting for scratch lock", self.root + ".lock")
        fcntl.flock(self.lock, fcntl.LOCK_EX)
        self.build()
        return self

    def __exit__(self, *exc):
        if not os.environ.get("VERIF_KEEP_SCRATCH"):
            shutil.rmtree(self.root, ignore_errors=True)
        fcntl.flock(self.lock, fcntl.LOCK_UN)
        self.lock.close()

    # -- construction ------------------------------------------------------
    def build(self):
        shutil.rmtree(self.root, ignore_errors=True)
        os.makedirs(self.repo)
        r = subprocess.run(["rsync", "-a", "--exclude", "/target", "--exclude", ".git",
                            REPO.rstrip("/") + "/", self.repo + "/"], capture_output=True, text=True)
        if r.returncode != 0:
            raise Undecided("snapshot rsync failed: " + r.stderr[-500:])
        self.inject()
        self.normalise_mtimes()

    def inject(self):
        units = registry.kani_units()
        for u in units:
            modfile = os.path.join(self.repo, u["module_file"])
            if not os.path.exists(modfile):
                raise Undecided("lost anchor: module file %s is gone" % u["module_file"])
            dst = os.path.join(os.path.dirname(modfile), u["inject_name"])
            shutil.copyfile(u["harness_path"], dst)
            with open(modfile, "a") as f:
                f.write('\n#[cfg(kani)]\n#[path = "%s"]\nmod %s;\n' % (u["inject_name"], u["mod_name"]))
            self.injected.append(os.path.relpath(dst, self.repo))
            if u.get("contracts"):
                self.inject_contracts(u, os.path.join(registry.KANI_DIR, u["contracts"]))
        # workspace-level: memchr shim (the real crate reaches cpuid inline asm)
        ws = os.path.join(self.repo, "Cargo.toml")
        with open(ws, "a") as f:
            f.write('\n[patch.crates-io]\nmemchr = { path = "%s" }\n' % os.path.join(VERIF, "shims", "memchr"))

    def inject_contracts(self, unit, path):
        """Insert contract attribute lines in front of anchored items. Pure insertion."""
        with open(path) as f:
            text = f.read().split("\n")
        blocks = []
        cur = None
        for line in text:
            if line.startswith("@@ anchor "):
                cur = {"anchor": line[len("@@ anchor "):].strip(), "nth": None, "file": unit["module_file"], "attrs": []}
                blocks.append(cur)
            elif line.startswith("@@ nth ") and cur is not None:
                cur["nth"] = int(line.split()[2])
            elif line.startswith("@@ file ") and cur is not None:
                cur["file"] = line.split()[2]
            elif line.startswith("@@"):
                continue  # comment
            elif cur is not None and line.strip():
                cur["attrs"].append(line)
        by_file = {}
        for b in blocks:
            by_file.setdefault(b["file"], []).append(b)
        for rel, bs in by_file.items():
            p = os.path.join(self.repo, rel)
            with open(p) as f:
                lines = f.read().split("\n")
            inserts = []
            for b in bs:
                idx = [i for i, l in enumerate(lines) if l.strip() == b["anchor"]]
                if b["nth"] is None:
                    if len(idx) != 1:
                        raise Undecided("lost anchor: %r matches %d times in %s" % (b["anchor"], len(idx), rel))
                    at = idx[0]
                else:
                    if len(idx) < b["nth"]:
                        raise Undecided("lost anchor: %r occurrence %d not found in %s" % (b["anchor"], b["nth"], rel))
                    at = idx[b["nth"] - 1]
                inserts.append((at, b["attrs"]))
            for at, attrs in sorted(inserts, reverse=True):
                lines[at:at] = attrs
            with open(p, "w") as f:
                f.write("\n".join(lines))

    def normalise_mtimes(self):
        """Make cargo's mtime-based freshness check content-based: a file whose content is the
        one recorded at the previous build keeps the recorded mtime; anything else is 'now'."""
        rec_path = os.path.join(TARGET_DIR, "verif-mtimes.json")
        rec = read_json(rec_path, {}) or {}
        new = {}
        now = time.time()
        h = []
        for d, dirs, files in os.walk(self.repo):
            dirs.sort()
            for fn in sorted(files):
                p = os.path.join(d, fn)
                if os.path.islink(p):
                    continue
                rel = os.path.relpath(p, self.repo)
                sha = sha256_file(p)
                h.append(rel + ":" + sha)
                old = rec.get(rel)
                if old and old[0] == sha:
                    mt = old[1]
                else:
                    mt = now
                os.utime(p, (mt, mt))
                new[rel] = [sha, mt]
        for u in registry.kani_units():
            pass
        h.append("shim:" + sha256_file(os.path.join(VERIF, "shims", "memchr", "src", "lib.rs")))
        self.tree_hash = sha256_bytes("\n".join(h).encode())
        os.makedirs(TARGET_DIR, exist_ok=True)
        write_json(rec_path, new)


# ---------------------------------------------------------------------------

_ENGINE_HASH = sha256_file(os.path.abspath(__file__))


def _cache_path(tree_hash, ob):
    key = sha256_bytes(("%s|%s|%s|%s|%s|%s" % (KANI_VERSION, _ENGINE_HASH, tree_hash, ob["full_name"], ob["timeout"], " ".join(KANI_FLAGS))).encode())
    return os.path.join(RESULT_CACHE, key + ".json")


def _features_of(pkg):
    for u in registry.kani_units():
        if u["pkg"] == pkg and u["features"]:
            return u["features"]
    return []


def run(snap, obs, use_cache=True):
    """Run the given Kani obligations; returns {ob_id: result}."""
    results = {}
    todo = {}
    for ob in obs:
        cp = _cache_path(snap.tree_hash, ob)
        c = read_json(cp) if use_cache else None
        if c is not None:
            c["cached"] = True
            results[ob["id"]] = c
        else:
            # one invocation per package and timeout class (Kani has one --harness-timeout per run)
            todo.setdefault((ob["pkg"], ob["timeout"] > 900), []).append(ob)
    for (pkg, _long), pobs in sorted(todo.items()):
        res = _run_pkg(snap, pkg, pobs)
        for ob in pobs:
            r = res[ob["id"]]
            r["cached"] = False
            results[ob["id"]] = r
            if r["verdict"] in ("pass", "fail"):
                write_json(_cache_path(snap.tree_hash, ob), r)
    return results


MEM_CAP_KB = int(float(os.environ.get("VERIF_MEM_GB", "14")) * 1024 * 1024)


def _rss_watchdog(stop):
    """Kill any cbmc process working for this slot whose resident set exceeds the cap: the harness
    is then reported undecided (tool limit) instead of taking the machine down."""
    while not stop.wait(5):
        try:
            for pid in os.listdir("/proc"):
                if not pid.isdigit():
                    continue
                try:
                    with open("/proc/%s/cmdline" % pid, "rb") as f:
                        cl = f.read()
                    if not cl.startswith(b"cbmc") or TARGET_DIR.encode() not in cl:
                        continue
                    with open("/proc/%s/status" % pid) as f:
                        st = f.read()
                    m = re.search(r"VmRSS:\s+(\d+) kB", st)
                    if m and int(m.group(1)) > MEM_CAP_KB:
                        log("watchdog: cbmc pid %s exceeds %d kB, killing" % (pid, MEM_CAP_KB))
                        os.kill(int(pid), 9)
                except (FileNotFoundError, ProcessLookupError, PermissionError):
                    continue
        except Exception:
            pass


def _run_pkg(snap, pkg, obs):
    out_json = os.path.join(snap.root, "kani-%s.json" % pkg)
    if os.path.exists(out_json):
        os.remove(out_json)
    timeout = max(o["timeout"] for o in obs)
    cmd = ["cargo", "kani", "-p", pkg] + KANI_FLAGS + ["-j", str(min(JOBS, max(1, len(obs)))),
           "--output-format", "terse", "--export-json", out_json, "--target-dir", TARGET_DIR,
           "--harness-timeout", "%ds" % timeout, "--exact"]
    feats = _features_of(pkg)
    if feats:
        cmd += ["--features", ",".join(feats)]
    for o in obs:
        cmd += ["--harness", o["full_name"]]
    log("kani: %s (%d harnesses, timeout %ds each)" % (pkg, len(obs), timeout))
    t0 = time.time()
    stop = threading.Event()
    wd = threading.Thread(target=_rss_watchdog, args=(stop,), daemon=True)
    wd.start()
    try:
        p = subprocess.run(cmd, cwd=snap.repo, env=ENV, capture_output=True, text=True,
                           timeout=timeout * max(1, (len(obs) + JOBS - 1) // JOBS) + 1800)
        out = p.stdout + "\n" + p.stderr
    except subprocess.TimeoutExpired as e:
        out = (e.stdout or b"").decode(errors="replace") + "\n" + (e.stderr or b"").decode(errors="replace") + "\n[verif] overall timeout"
    finally:
        stop.set()
    wall = time.time() - t0
    logp = os.path.join(CACHE, "logs", "kani-%s-%d.log" % (pkg, int(t0)))
    os.makedirs(os.path.dirname(logp), exist_ok=True)
    with open(logp, "w") as f:
        f.write(" ".join(cmd) + "\n" + out)
    data = read_json(out_json)
    res = {}
    if data is None:
        # compile error or crash before verification
        errs = [l for l in out.split("\n") if l.startswith("error")]
        reason = "kani produced no results for %s (%s); log %s" % (pkg, "; ".join(errs[:3]) or "see log", logp)
        for o in obs:
            res[o["id"]] = {"verdict": "undecided", "reason": reason, "checks": 0, "time_s": 0.0}
        return res
    by_h = {r["harness_id"]: r for r in data["verification_results"]["results"]}
    stats = {c["harness_id"]: c for c in data.get("cbmc", [])}
    errd = {e["harness_id"]: e for e in data.get("error_details", [])}
    should_panic = {h["pretty_name"]: (h.get("attributes") or {}).get("should_panic", False) for h in data.get("harness_metadata", [])}
    for o in obs:
        r = by_h.get(o["full_name"])
        if r is None:
            res[o["id"]] = {"verdict": "undecided", "reason": "harness %s not in kani results (not found / timeout / crash); log %s" % (o["full_name"], logp),
                            "checks": 0, "time_s": 0.0}
            continue
        res[o["id"]] = classify(o, r, stats.get(o["full_name"]), errd.get(o["full_name"]), out,
                                should_panic.get(o["full_name"], False))
    log("kani: %s done in %.1fs" % (pkg, wall))
    if os.environ.get("VERIF_VERBOSE"):
        for o in sorted(obs, key=lambda o: -(res[o["id"]].get("time_s") or 0)):
            r = res[o["id"]]
            log("   %-40s %-9s %7.1fs checks=%s %s" % (o["id"], r["verdict"], r.get("time_s") or 0, r.get("checks"), (r.get("reason") or "")[:100]))
    return res


_INFRA_CATS = ("unwind", "unsupported_construct", "unsupported", "internal")


def classify(ob, r, stat, err, out, should_panic=False):
    checks = r.get("checks", [])
    n = len(checks)
    failed = [c for c in checks if c["status"].lower() == "failure"]
    undet = [c for c in checks if c["status"].lower() == "undetermined"]
    covers = [c for c in checks if c.get("category") == "cover"]
    cov_bad = [c for c in covers if c["status"].lower() not in ("satisfied",)]
    status = r["status"].lower()
    cs = (stat or {}).get("cbmc_stats") or {}
    res = {"checks": n, "time_s": r.get("duration_ms", 0) / 1000.0, "covers": len(covers),
           "solver_s": cs.get("runtime_decision_procedure_s"), "symex_s": cs.get("runtime_symex_s"),
           "vccs": cs.get("vccs_generated"), "program_steps": cs.get("size_program_expression")}

    def brief(c):
        loc = c.get("location") or {}
        return {"description": c.get("description"), "category": c.get("category"),
                "function": c.get("function"), "file": loc.get("file"), "line": loc.get("line")}

    infra = [c for c in failed if (c.get("category") or "") in _INFRA_CATS
             or "unwinding assertion" in (c.get("description") or "")
             or "is not currently supported by Kani" in (c.get("description") or "")]
    # a built-in check (overflow, bounds ...) failing INSIDE harness code is a defect of the harness, not of /repo
    harness_bug = [c for c in failed if c not in infra and (c.get("category") or "") != "assertion"
                   and "verif_kani_" in ((c.get("location") or {}).get("file") or "")]
    infra += harness_bug
    real = [c for c in failed if c not in infra]
    if should_panic:
        # #[kani::should_panic]: Kani reports success iff at least one panic is reachable and
        # nothing but panics failed.  A harness that no longer panics is a failed obligation.
        if status == "success" and not infra:
            res.update(verdict="pass")
        elif infra:
            res.update(verdict="undecided", reason="tool limit: %s" % brief(infra[0]))
        else:
            res.update(verdict="fail", failed_checks=[{"description": "expected panic did not occur (should_panic harness)",
                       "category": "should_panic", "function": ob["full_name"], "file": None, "line": None}] + [brief(c) for c in real[:4]])
    elif status == "success" and not failed and not undet:
        if cov_bad:
            res.update(verdict="undecided", reason="vacuity: cover not satisfied: %s" % brief(cov_bad[0]))
        elif n == 0:
            res.update(verdict="undecided", reason="vacuity: harness generated zero checks")
        else:
            res.update(verdict="pass")
    elif real and not infra:
        res.update(verdict="fail", failed_checks=[brief(c) for c in real[:8]])
    elif infra:
        res.update(verdict="undecided", reason="tool limit: %s" % brief(infra[0]), failed_checks=[brief(c) for c in real[:8]])
    elif "timeout" in str(err).lower() or "timed" in status:
        res.update(verdict="undecided", reason="harness timeout (CBMC did not finish within the per-harness limit)")
    else:
        et = (err or {}).get("error_type") or (err or {}).get("exit_status")
        res.update(verdict="undecided", reason="kani status %s (%s), %d undetermined checks" % (r["status"], et, len(undet)))
    # canaries / expected failures are interpreted by the caller
    return res


# ---------------------------------------------------------------------------
# counterexample + native replay

_TEST_RE = re.compile(r"```\n(.*?)```", re.S)


def counterexample(snap, ob):
    """Re-run one failed harness with concrete playback; returns dict with the generated unit test."""
    cmd = ["cargo", "kani", "-p", ob["pkg"]] + KANI_FLAGS + ["-Z", "concrete-playback", "--concrete-playback=print",
           "--target-dir", TARGET_DIR, "--harness-timeout", "%ds" % ob["timeout"], "--exact", "--harness", ob["full_name"]]
    feats = _features_of(ob["pkg"])
    if feats:
        cmd += ["--features", ",".join(feats)]
    try:
        p = subprocess.run(cmd, cwd=snap.repo, env=ENV, capture_output=True, text=True, timeout=ob["timeout"] + 900)
    except subprocess.TimeoutExpired:
        return {"tests": [], "output_tail": "timeout while extracting counterexample"}
    out = p.stdout
    tests = []
    for t in _TEST_RE.findall(out):
        if "concrete_playback_run" not in t or "Check for `cover`" in t:
            continue
        # drop the generated doc-comment header (a multi-line check description breaks `///`)
        i = t.find("#[test]")
        head = " ".join(t[:i].split())[:300]
        tests.append("// " + head.replace("///", "").strip() + "\n" + t[i:])
    # keep the informative tail of the verifier's output (RESULTS of failed checks)
    tail = []
    keep = False
    for line in out.split("\n"):
        if line.startswith("SUMMARY:") or line.startswith("VERIFICATION RESULT"):
            keep = True
        if keep:
            tail.append(line)
    return {"tests": tests, "output_tail": "\n".join(tail)[-6000:], "cmd": " ".join(cmd)}


def native_replay(snap, ob, tests):
    """Append the generated playback tests to the injected harness module of the snapshot and
    run them natively: the real function executes on the concrete input."""
    unit = [u for u in registry.kani_units() if u["harness"] == ob["unit"]][0]
    dst = os.path.join(os.path.dirname(os.path.join(snap.repo, unit["module_file"])), unit["inject_name"])
    names = []
    with open(dst, "a") as f:
        for t in tests:
            m = re.search(r"fn (kani_concrete_playback_[A-Za-z0-9_]+)\(", t)
            if not m:
                continue
            names.append(m.group(1))
            f.write("\n" + t + "\n")
    if not names:
        return {"reproduced": False, "reason": "no playback test generated"}
    env = dict(ENV, CARGO_TARGET_DIR=PLAYBACK_TARGET_DIR, RUST_BACKTRACE="0")
    cmd = ["cargo", "kani", "playback", "-Z", "concrete-playback", "-p", ob["pkg"]]
    feats = _features_of(ob["pkg"])
    if feats:
        cmd += ["--features", ",".join(feats)]
    cmd += ["--", "kani_concrete_playback_" + ob["harness"] + "_"]
    try:
        p = subprocess.run(cmd, cwd=snap.repo, env=env, capture_output=True, text=True, timeout=1800)
    except subprocess.TimeoutExpired:
        return {"reproduced": False, "reason": "native playback timed out"}
    out = p.stdout + "\n" + p.stderr
    panics = [l for l in out.split("\n") if "panicked at" in l]
    failed = re.search(r"test result: FAILED", out) is not None
    lines = [l for l in out.split("\n") if not l.startswith("warning") and l.strip()]
    interesting = [l[:300] for l in out.split("\n")
                   if ("panicked at" in l or "assertion" in l or "test result" in l or "overflow" in l) and not l.lstrip().startswith("process didn't")]
    return {"reproduced": bool(failed and panics), "panics": panics[:5], "cmd": " ".join(cmd),
            "output_tail": "\n".join(interesting[-20:]) or "\n".join(lines[-15:])}
