import struct, collections, math
def bits(v): return struct.unpack('<Q',struct.pack('<d',v))[0]
NANBITS=0x7ff8000000000000
# parse
n=0; diffs=[]
for line in open('rust_parse.txt'):
    s,r=line.rstrip('\n').split('\t')
    try:
        v=float(s); p='%016x'%(NANBITS if math.isnan(v) else bits(v))
    except ValueError: p='E'
    n+=1
    if p!=r: diffs.append((s,p,r))
print('parse',n,len(diffs))
g=collections.Counter(); ex={}
for s,p,r in diffs:
    key=('pyE' if p=='E' else 'py')+'/'+('rsE' if r=='E' else 'rs')
    g[key]+=1; ex.setdefault(key,[]).append((s,p,r))
for k,c in g.items(): print(k,c,sorted(ex[k],key=lambda x:len(x[0]))[:25])
# render
n=0; diffs=[]
for line in open('rust_render.txt'):
    b,kind,r=line.rstrip('\n').split('\t')
    v=struct.unpack('<d',struct.pack('<Q',int(b,16)))[0]
    if kind=='repr': p=repr(v)
    elif kind=='hex': p=v.hex()
    else:
        t=kind[0]; alt=kind[-1]=='1'; prec=int(kind[1:-1])
        if t=='g' and prec==0: prec=1
        p=('%'+('#' if alt else '')+'.'+str(prec)+t) % abs(v)
    n+=1
    if p!=r: diffs.append((v,kind,p,r))
print('render',n,len(diffs))
g=collections.Counter(); ex={}
for v,kind,p,r in diffs:
    key=kind[0]+('#' if kind[-1]=='1' and kind[0] in 'feg' else '')
    g[key]+=1; ex.setdefault(key,[]).append((v,kind,p,r))
for k,c in g.items(): print(k,c,ex[k][:6])
