use rustpython_literal::float::*;
use std::io::Write;
#[test]
fn parse() {
    let alpha: Vec<char> = "01.e+-_ infa".chars().collect();
    let mut f = std::io::BufWriter::new(std::fs::File::create("/var/tmp/diff17/rust_parse.txt").unwrap());
    let maxlen = 6;
    let mut idx: Vec<usize> = vec![];
    loop {
        let s: String = idx.iter().map(|&i| alpha[i]).collect();
        let r = match parse_str(&s) { Some(v) => format!("{:016x}", if v.is_nan() { f64::NAN.to_bits() } else { v.to_bits() }), None => "E".to_string() };
        writeln!(f, "{}\t{}", s, r).unwrap();
        let mut k = idx.len();
        loop {
            if k == 0 { idx = vec![0; idx.len() + 1]; break; }
            k -= 1;
            if idx[k] + 1 < alpha.len() { idx[k] += 1; for j in k + 1..idx.len() { idx[j] = 0; } break; }
        }
        if idx.len() > maxlen { break; }
    }
}
fn vals() -> Vec<f64> {
    let mut v = vec![0.0, -0.0, 1.0, -1.5, 0.1, 1e15, 1e16, 9999999999999998.0, 1e17, 1e-4, 1e-5, 0.00012345, 123456789.125, 1e22, 1e23, 5e-324, 2.2250738585072014e-308, 1.7976931348623157e308, f64::INFINITY, f64::NEG_INFINITY, f64::NAN, 2.5, 0.5, 1e100, 3.14159, 100.0, 1234567.0, 0.3, 2.675, 1e21];
    // deterministic pseudo-random doubles
    let mut x: u64 = 0x9E3779B97F4A7C15;
    for _ in 0..20000 {
        x ^= x << 13; x ^= x >> 7; x ^= x << 17;
        let f = f64::from_bits(x);
        if f.is_finite() { v.push(f); }
        // and a "human" magnitude
        let g = ((x >> 11) as f64) / 1e9 * if x & 1 == 0 { 1.0 } else { -1.0 };
        v.push(g);
    }
    v
}
#[test]
fn render() {
    let mut f = std::io::BufWriter::new(std::fs::File::create("/var/tmp/diff17/rust_render.txt").unwrap());
    for v in vals() {
        let bits = v.to_bits();
        writeln!(f, "{:016x}\trepr\t{}", bits, to_string(v)).unwrap();
        writeln!(f, "{:016x}\thex\t{}", bits, to_hex(v)).unwrap();
        for p in [0usize, 1, 3, 6, 17] {
            for alt in [false, true] {
                let m = v.abs();
                writeln!(f, "{:016x}\tf{}{}\t{}", bits, p, alt as u8, format_fixed(p, m, rustpython_literal::format::Case::Lower, alt)).unwrap();
                writeln!(f, "{:016x}\te{}{}\t{}", bits, p, alt as u8, format_exponent(p, m, rustpython_literal::format::Case::Lower, alt)).unwrap();
                writeln!(f, "{:016x}\tg{}{}\t{}", bits, p, alt as u8, format_general(if p == 0 { 1 } else { p }, m, rustpython_literal::format::Case::Lower, alt, false)).unwrap();
            }
        }
    }
}
