import ast, warnings
warnings.simplefilter('ignore')
out=open('py.txt','w')
for line in open('progs.txt'):
    src=line.rstrip('\n').replace('\\n','\n')
    try:
        ast.parse(src); r='ok'
    except SyntaxError as e: r='E'
    except (ValueError,MemoryError,RecursionError): r='E2'
    out.write(r+'\n')
out.close()
