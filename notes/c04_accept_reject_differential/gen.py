import itertools
out=open('progs.txt','w')
seen=set()
def emit(s):
    if s in seen: return
    seen.add(s); out.write(s.replace('\n','\\n')+'\n')
# 1. call arguments
args=['a','*a','**a','k=a','k=b','j=a','a for a in b','*a,','']
for n in range(0,5):
    for t in itertools.product(args[:-1],repeat=n):
        emit('f('+','.join(t)+')')
        emit('class C('+','.join(t)+'): pass')
# 2. parameter lists
params=['a','b','a=1','b=1','*','*a','**k','/','*b','**k2','a:int','c']
for n in range(0,5):
    for t in itertools.product(params,repeat=n):
        emit('def f('+','.join(t)+'): pass')
        emit('lambda '+','.join(t)+': 0')
# 3. general token soup
toks=['a','1',"'s'",'(',')','[',']','{','}',',','=',':','*','**','.','+','-','not ','in ','is ','if ','else ','for ','lambda ',':=','\n',' ','    ','@','b"x"','f"{a}"','...','await ','yield ','async ','def ','return ','pass','import ','as ','from ','del ','global ','x ']
for n in range(1,4):
    for t in itertools.product(toks,repeat=n):
        emit(''.join(t))
        emit(''.join(t)+'\n')
out.close(); print(len(seen))
