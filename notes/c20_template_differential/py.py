import _string, itertools
alpha = "{}[]!:.a0"   # second run: "{}[]!:ré"
out = open('py.txt', 'w')
def canon(s):
    try:
        parts = list(_string.formatter_parser(s))
    except ValueError:
        return "E"
    o = ""; lit = ""
    for l, n, sp, c in parts:
        lit += l
        if n is not None:
            if lit: o += "L(%s)" % lit; lit = ""
            o += "F(%s|%s|%s)" % (n, c if c is not None else "-", sp)
    if lit: o += "L(%s)" % lit
    return o
for n in range(0, 7):
    for t in itertools.product(alpha, repeat=n):
        s = "".join(t)
        out.write("%s\t%s\n" % (s, canon(s)))
out.close()
