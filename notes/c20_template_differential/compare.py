import re
a = dict(l.rstrip('\n').split('\t') for l in open('rust.txt'))
b = dict(l.rstrip('\n').split('\t') for l in open('py.txt'))
diff = [(k, a[k], b[k]) for k in b if a.get(k) != b[k]]
# Python's *parser* takes any character after '!' as the conversion and rejects it later ("Unknown conversion
# specifier"); the Rust splitter rejects such templates at once: both reject, not a divergence
def badconv(p): return re.search(r"F\([^|]*\|[:\[\]{}]\|", p) is not None
rest = [d for d in diff if not (d[1] == 'E' and badconv(d[2]))]
print(len(b), "templates;", len(diff), "raw differences;", len(rest), "after dropping bad-conversion rejections")
for d in sorted(rest, key=lambda x: (len(x[0]), x[0]))[:40]: print(d)
