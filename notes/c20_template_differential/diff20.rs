// Not a registered check (native enumeration is not contract verification): the one-off comparison that found F10.
// Place as format/tests/diff20.rs in a scratch copy of /repo, `cargo test --release -p rustpython-format --test diff20`,
// then `python3 py.py` and compare rust.txt / py.txt (compare.py).
use rustpython_format::{FormatPart, FormatString, FromTemplate};
use std::io::Write;
fn canon(s: &str) -> String {
    match FormatString::from_str(s) {
        Err(_) => "E".to_string(),
        Ok(f) => {
            let mut out = String::new();
            let mut lit = String::new();
            for p in f.format_parts {
                match p {
                    FormatPart::Literal(t) => lit.push_str(&t),
                    FormatPart::Field { field_name, conversion_spec, format_spec } => {
                        if !lit.is_empty() { out.push_str(&format!("L({})", lit)); lit.clear(); }
                        out.push_str(&format!("F({}|{}|{})", field_name, conversion_spec.map(|c| c.to_string()).unwrap_or("-".into()), format_spec));
                    }
                }
            }
            if !lit.is_empty() { out.push_str(&format!("L({})", lit)); }
            out
        }
    }
}
#[test]
fn dump() {
    let alpha: Vec<char> = "{}[]!:.a0".chars().collect(); // second run: "{}[]!:ré"
    let mut f = std::io::BufWriter::new(std::fs::File::create("rust.txt").unwrap());
    let maxlen = 6;
    let mut idx = vec![];
    loop {
        let s: String = idx.iter().map(|&i: &usize| alpha[i]).collect();
        writeln!(f, "{}\t{}", s, canon(&s)).unwrap();
        let mut k = idx.len();
        loop {
            if k == 0 { idx = vec![0; idx.len() + 1]; break; }
            k -= 1;
            if idx[k] + 1 < alpha.len() { idx[k] += 1; for j in k + 1..idx.len() { idx[j] = 0; } break; }
        }
        if idx.len() > maxlen { break; }
    }
}
