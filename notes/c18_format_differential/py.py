import sys
ints=[0,5,-5,1000,-1000,999999,0x10FFFF,0x110000,2**64,-(2**64),123456789012,48]
strs=['ab','abcdefghij','日本語','x'*25,'é'*9]
bools=[True,False]
floats=[0.125,2.675,1e22,1e-10,999999.9,5e-324,1.7976931348623157e308,-0.0001,1e15,123456.0,0.000123456,9.5,99.99,1e6,1e-4,12345678901234567.0,3.0,-2.0]
which=sys.argv[1]
vals={'i':ints,'s':strs,'b':bools,'f':floats}[which]
out=open('py_%s.txt'%which,'w')
for spec in open('specs.txt'):
    spec=spec.rstrip('\n')
    for k,v in enumerate(vals):
        try: r=format(v,spec)
        except (ValueError,OverflowError,TypeError) as e: r='\x00E'
        out.write("%s\t%d\t%s\n"%(spec,k,r))
out.close()
