import itertools
fills=['','0','x']
aligns=['','>','=','^']
signs=['','+','-',' ']
alts=['','#']
zeros=['','0']
widths=['','3','7','8','9','10','20']
groups=['',',','_']
precs=['','.1','.3','.6','.17']
types=['','b','c','d','o','x','X','n','e','E','f','F','g','G','%','s']
with open('specs.txt','w') as f:
    for fi,al,si,a,z,w,g,p,t in itertools.product(fills,aligns,signs,alts,zeros,widths,groups,precs,types):
        if fi and not al: continue
        f.write(fi+al+si+a+z+w+g+p+t+"\n")
