use malachite_bigint::BigInt;
use rustpython_format::{CharLen, FormatSpec};
use std::io::{BufRead, Write};
use std::ops::Deref;
struct S(String);
impl CharLen for S { fn char_len(&self) -> usize { self.0.chars().count() } }
impl Deref for S { type Target = str; fn deref(&self) -> &str { &self.0 } }
fn run(which: &str) {
    let specs = std::io::BufReader::new(std::fs::File::open("/var/tmp/diff18/specs.txt").unwrap());
    let mut out = std::io::BufWriter::new(std::fs::File::create(format!("/var/tmp/diff18/rust_{which}.txt")).unwrap());
    let ints: Vec<BigInt> = ["0","5","-5","1000","-1000","999999","1114111","1114112","18446744073709551616","-18446744073709551616","123456789012","48"].iter().map(|s| s.parse().unwrap()).collect();
    let x25 = "x".repeat(25); let e9 = "é".repeat(9); let strs = ["ab", "abcdefghij", "日本語", x25.as_str(), e9.as_str()];
    let bools = [true, false];
    let floats = [0.125,2.675,1e22,1e-10,999999.9,5e-324,1.7976931348623157e308,-0.0001,1e15,123456.0,0.000123456,9.5,99.99,1e6,1e-4,12345678901234567.0,3.0,-2.0];
    for line in specs.lines() {
        let spec = line.unwrap();
        let parsed = FormatSpec::parse(&spec);
        let n = match which { "i" => ints.len(), "s" => strs.len(), "b" => bools.len(), _ => floats.len() };
        for k in 0..n {
            let r = match &parsed {
                Err(_) => None,
                Ok(p) => std::panic::catch_unwind(std::panic::AssertUnwindSafe(|| match which {
                    "i" => p.format_int(&ints[k]).ok(),
                    "s" => p.format_string(&S(strs[k].to_string())).ok(),
                    "b" => p.format_bool(bools[k]).ok(),
                    _ => p.format_float(floats[k]).ok(),
                })).unwrap_or(Some("\u{0}PANIC".to_string())),
            };
            writeln!(out, "{}\t{}\t{}", spec, k, r.unwrap_or("\u{0}E".to_string())).unwrap();
        }
    }
}
#[test] fn ints() { run("i") }
#[test] fn strs() { run("s") }
#[test] fn bools() { run("b") }
#[test] fn floats() { run("f") }
