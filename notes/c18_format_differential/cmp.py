import sys, collections
which=sys.argv[1]
n=0; diffs=[]
with open('py_%s.txt'%which) as a, open('rust_%s.txt'%which) as b:
    for la,lb in zip(a,b):
        n+=1
        if la!=lb:
            sa=la.rstrip('\n').split('\t'); sb=lb.rstrip('\n').split('\t')
            diffs.append((sa[0],sa[1],sa[2],sb[2]))
print(which,n,len(diffs))
# group by type char and kind of diff
g=collections.Counter()
ex={}
for spec,k,p,r in diffs:
    t=spec[-1] if spec and spec[-1].isalpha() or spec.endswith('%') else ''
    kind=('pyE' if p=='\x00E' else 'py') + '/' + ('rsE' if r=='\x00E' else ('PANIC' if 'PANIC' in r else 'rs'))
    g[(t,kind)]+=1
    ex.setdefault((t,kind),[]).append((spec,k,p,r))
for key,c in sorted(g.items(), key=lambda x:-x[1])[:40]:
    print(key,c,ex[key][:3])
