ints=[0,1,-1,7,-42,255,1234567,-1234567,10**20,-(10**20)]
floats=[0.0,-0.0,1.0,-1.5,1234.5678,-1234567.891,1e10,1.5e-7,float('inf'),float('-inf'),float('nan'),123456789.123,0.1,1e16,2.5,0.5,1e-5,100.0]
strs=['','a','abc','é','héllo wörld']
chars=['a','é','😀']
bys=[b'',b'a',b'abc',b'hello world']
out=open('py.txt','w')
for spec in open('specs.txt'):
    spec=spec.rstrip('\n'); t=spec[-1]
    if t in 'diuoxX': vals=[('i',k,v) for k,v in enumerate(ints)]
    elif t in 'eEfFgG': vals=[('f',k,v) for k,v in enumerate(floats)]
    elif t=='c': vals=[('c',k,v) for k,v in enumerate(chars)]
    else: vals=[('s',k,v) for k,v in enumerate(strs)]+[('b',k,v) for k,v in enumerate(bys)]
    for kind,k,v in vals:
        try:
            if kind=='b': r=(spec.encode() % v).decode('latin-1')
            else: r=spec % v
        except (ValueError,OverflowError,TypeError) as e: r='\x00E'
        out.write("%s\t%s%d\t%s\n"%(spec,kind,k,r))
out.close()
