import itertools
flagsets=[''.join(f) for n in range(0,6) for f in itertools.combinations('-+ #0',n)]
widths=['','1','6','12']
precs=['','.','.0','.2','.10']
types='diuoxXeEfFgGcs'
with open('specs.txt','w') as f:
    for fl,w,p,t in itertools.product(flagsets,widths,precs,types):
        f.write('%'+fl+w+p+t+'\n')
