// Native enumeration (not a registered check): C05 tiling invariants and C03 totality on every short input.
use rustpython_parser::lexer::lex;
use rustpython_parser::{parse, Mode, Tok};
use std::io::Write;

fn gap_ok(s: &str) -> bool {
    // only whitespace, comments and backslash-newline joins between tokens
    let b = s.as_bytes();
    let mut i = 0;
    while i < b.len() {
        match b[i] {
            b' ' | b'\t' | 0x0c | b'\n' | b'\r' => i += 1,
            b'#' => { while i < b.len() && b[i] != b'\n' && b[i] != b'\r' { i += 1; } }
            b'\\' => { if i + 1 < b.len() && (b[i + 1] == b'\n' || b[i + 1] == b'\r') { i += 2; if b[i - 1] == b'\r' && i < b.len() && b[i] == b'\n' { i += 1; } } else { return false; } }
            _ => return false,
        }
    }
    true
}

fn check(src: &str, out: &mut impl Write) {
    for (mname, mode) in [("module", Mode::Module), ("interactive", Mode::Interactive), ("expression", Mode::Expression)] {
        let r = std::panic::catch_unwind(|| {
            let mut problems: Vec<String> = vec![];
            let mut toks = vec![];
            let mut err = None;
            for t in lex(src, mode) {
                match t { Ok(x) => toks.push(x), Err(e) => { err = Some(e); break; } }
            }
            if let Some(e) = &err {
                let off = usize::from(e.location);
                if off > src.len() || !src.is_char_boundary(off) { problems.push(format!("error offset {} not on a boundary / outside", off)); }
            } else {
                let mut pos = 0usize;
                let mut depth: i32 = 0;
                let mut indents: i32 = 0;
                for (tok, range) in &toks {
                    let (s, e) = (usize::from(range.start()), usize::from(range.end()));
                    if e > src.len() || s > e || !src.is_char_boundary(s) || !src.is_char_boundary(e) { problems.push(format!("bad range {:?} {}..{}", tok, s, e)); continue; }
                    if s < pos { problems.push(format!("overlap/decreasing at {:?} {}..{} after {}", tok, s, e, pos)); continue; }
                    if !gap_ok(&src[pos..s]) { problems.push(format!("gap {:?} before {:?}", &src[pos..s], tok)); }
                    match tok {
                        Tok::Lpar | Tok::Lsqb | Tok::Lbrace => depth += 1,
                        Tok::Rpar | Tok::Rsqb | Tok::Rbrace => depth -= 1,
                        Tok::Newline => if depth > 0 { problems.push("NEWLINE inside brackets".into()) },
                        Tok::Indent => indents += 1,
                        Tok::Dedent => indents -= 1,
                        Tok::Name { name } => if &src[s..e] != name.as_str() { problems.push(format!("name {:?} != text {:?}", name, &src[s..e])) },
                        _ => {}
                    }
                    if indents < 0 { problems.push("DEDENT without INDENT".into()); }
                    pos = e;
                }
                if indents != 0 { problems.push(format!("INDENT/DEDENT unbalanced: {}", indents)); }
                if !gap_ok(&src[pos..]) { problems.push(format!("trailing gap {:?}", &src[pos..])); }
            }
            // parsing: only totality and the error offset
            match parse(src, mode, "<t>") {
                Ok(_) => {}
                Err(e) => {
                    let off = usize::from(e.offset);
                    if off > src.len() || !src.is_char_boundary(off) { problems.push(format!("parse error offset {} not on a boundary / outside ({:?})", off, e.error)); }
                }
            }
            problems
        });
        match r {
            Ok(p) => for x in p { writeln!(out, "{:?}\t{}\t{}", src, mname, x).unwrap(); },
            Err(_) => writeln!(out, "{:?}\t{}\tPANIC", src, mname).unwrap(),
        }
    }
}

#[test]
fn enumerate() {
    std::panic::set_hook(Box::new(|_| {}));
    let alpha: Vec<char> = "a1 \n\t#\\'\"([:.=-<!e_é\r}0x".chars().collect();
    let mut out = std::io::BufWriter::new(std::fs::File::create("/var/tmp/diff05/problems.txt").unwrap());
    let maxlen = 5;
    let mut idx: Vec<usize> = vec![];
    let mut n = 0u64;
    loop {
        let s: String = idx.iter().map(|&i| alpha[i]).collect();
        check(&s, &mut out);
        n += 1;
        let mut k = idx.len();
        loop {
            if k == 0 { idx = vec![0; idx.len() + 1]; break; }
            k -= 1;
            if idx[k] + 1 < alpha.len() { idx[k] += 1; for j in k + 1..idx.len() { idx[j] = 0; } break; }
        }
        if idx.len() > maxlen { break; }
    }
    eprintln!("inputs: {}", n);
}
