#!/usr/bin/env python3
"""Self-test: applies deliberate property-breaking edits (selftest/mutations.json) to a scratch copy of
/repo, one at a time, and checks that the named property's check turns red (exit 1 + VIOLATION).
usage: selftest/run.py [--only substr] [--tier quick]"""
import json, os, shutil, subprocess, sys, time
HERE = os.path.dirname(os.path.abspath(__file__))
VERIF = os.path.dirname(HERE)
MUT = "/var/tmp/verif-mut-" + os.environ.get("VERIF_SLOT", "main")

def main():
    only = None
    exact = None
    tier = "quick"
    a = sys.argv[1:]
    while a:
        x = a.pop(0)
        if x == "--only": only = a.pop(0)
        elif x == "--exact": exact = a.pop(0)
        elif x == "--seeded": pass
        elif x == "--tier": tier = a.pop(0)
    listfile = os.path.join(HERE, "mutations.json")
    if "--seeded" in sys.argv:
        listfile = os.path.join(VERIF, "seeded", "index.json")
    muts = json.load(open(listfile))
    rows = []
    for m in muts:
        if only and only not in m["name"]:
            continue
        if exact and m["name"] not in exact.split(","):
            continue
        shutil.rmtree(MUT, ignore_errors=True)
        os.makedirs(MUT)
        subprocess.run(["rsync", "-a", "--exclude", "/target", "--exclude", ".git", "/repo/", MUT + "/repo/"], check=True)
        if "patch" in m:
            r = subprocess.run(["git", "apply", "--unsafe-paths", "--directory", MUT + "/repo", os.path.join(VERIF, m["patch"])], cwd="/", capture_output=True, text=True)
            if r.returncode != 0:
                r = subprocess.run(["patch", "-p1", "-d", MUT + "/repo", "-i", os.path.join(VERIF, m["patch"])], capture_output=True, text=True)
            if r.returncode != 0:
                rows.append((m["name"], "PATCH-DOES-NOT-APPLY " + r.stderr[-200:])); continue
        else:
            p = os.path.join(MUT, "repo", m["file"])
            s = open(p).read()
            if s.count(m["old"]) != m.get("count", 1):
                rows.append((m["name"], "MUTATION-DOES-NOT-APPLY (%d matches)" % s.count(m["old"]))); continue
            s = s.replace(m["old"], m["new"])
            open(p, "w").write(s)
        for prop in m["props"]:
            t0 = time.time()
            env = dict(os.environ, VERIF_REPO=MUT + "/repo", VERIF_NO_EVIDENCE="1")
            r = subprocess.run([os.path.join(VERIF, "check"), prop, "--tier", m.get("tier", tier)], env=env, capture_output=True, text=True)
            viol = [l for l in r.stdout.split("\n") if l.startswith("VIOLATION")]
            if m.get("expect") == "pass":
                # behaviour-preserving edit: the check must not alarm (0 = held, 2 = undecided is tolerated)
                verdict = {0: "CAUGHT-NOTHING-OK ", 2: "CAUGHT-NOTHING-UNDECIDED "}.get(r.returncode, "FALSE-ALARM exit=%d " % r.returncode)
                if viol: verdict = "FALSE-ALARM "
                rows.append((m["name"] + " -> " + prop, verdict + "%.0fs " % (time.time() - t0) + r.stdout[-200:].replace("\n", " ")))
                print(rows[-1], flush=True)
                continue
            ok = r.returncode == 1 and viol
            rows.append((m["name"] + " -> " + prop, ("CAUGHT " if ok else "MISSED exit=%d " % r.returncode) + "%.0fs " % (time.time() - t0) + " | ".join(v.split("obligation=")[-1] for v in viol)[:200] + ("" if ok else r.stdout[-300:] + (" STDERR: " + r.stderr[-600:].replace("\n", " | ") if r.returncode == 2 else ""))))
            print(rows[-1], flush=True)
    shutil.rmtree(MUT, ignore_errors=True)
    missed = [r for r in rows if not r[1].startswith("CAUGHT")]
    print("self-test: %d mutations, %d caught, %d not" % (len(rows), len(rows) - len(missed), len(missed)))
    return 1 if missed else 0

if __name__ == "__main__":
    sys.exit(main())
