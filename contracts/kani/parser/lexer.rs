// Kani harnesses for parser/src/lexer.rs (child module: sees Lexer's private fields and methods).
// Every harness that can see a LexicalError carries an unwind bound: it only cuts the recursive
// drop glue of FStringErrorType::InvalidExpression(Box<ParseErrorType>); unwinding assertions stay on.
use super::*;
use std::mem::ManuallyDrop;

/// Source iterator: up to 4 further look-ahead characters, fully symbolic.
pub(super) struct Src {
    items: [Option<char>; 4],
    i: usize,
}
impl Iterator for Src {
    type Item = char;
    fn next(&mut self) -> Option<char> {
        if self.i < 4 {
            let c = self.items[self.i];
            self.i += 1;
            c
        } else {
            None
        }
    }
}

/// A lexer in an arbitrary mid-text state: symbolic 3-char window + 4 symbolic source chars.
/// Invariant of a char stream: once exhausted it stays exhausted.
fn any_stream() -> ([Option<char>; 3], [Option<char>; 4]) {
    // element by element: no array-generation loop, so small unwind bounds stay sufficient
    let w: [Option<char>; 3] = [kani::any(), kani::any(), kani::any()];
    let s: [Option<char>; 4] = [kani::any(), kani::any(), kani::any(), kani::any()];
    kani::assume(w[0].is_some() || w[1].is_none());
    kani::assume(w[1].is_some() || w[2].is_none());
    kani::assume(w[2].is_some() || s[0].is_none());
    kani::assume(s[0].is_some() || s[1].is_none());
    kani::assume(s[1].is_some() || s[2].is_none());
    kani::assume(s[2].is_some() || s[3].is_none());
    (w, s)
}

fn lexer_at(w: [Option<char>; 3], s: [Option<char>; 4], start: u32, nesting: usize, bol: bool) -> Lexer<Src> {
    Lexer {
        at_begin_of_line: bol,
        nesting,
        indentations: Indentations::default(),
        pending: Vec::with_capacity(5),
        location: TextSize::new(start),
        window: CharWindow { source: Src { items: s, i: 0 }, window: w },
    }
}

/// Number of source bytes one logical character occupies at the head of the stream:
/// CR LF is two bytes, everything else its UTF-8 length.
fn head_len(c0: char, c1: Option<char>) -> u32 {
    if c0 == '\r' && c1 == Some('\n') {
        2
    } else {
        c0.len_utf8() as u32
    }
}

/// The statement's hypothesis "any length that fits the 32-bit offset space": the part of the text
/// a single step can consume (at most 7 chars of at most 4 bytes) still fits.
const MAX_START: u32 = u32::MAX - 32;

// @ob id=C05.k.next_char props=C05,C03,C06 kind=complete tier=quick
// @clause byte-accurate position bookkeeping: next_char returns the head character (CR and CR LF folded to one '\n'), advances the position by exactly the bytes consumed (CR LF = 2, CR = 1, otherwise the UTF-8 length), shifts the window by one logical character, and at end of input returns None leaving the position unchanged
// @fns Lexer::next_char CharWindow::slide
#[kani::proof]
#[kani::unwind(6)]
fn c05_next_char() {
    let (w, s) = any_stream();
    let start: u32 = kani::any();
    kani::assume(start <= MAX_START);
    let mut lxr = ManuallyDrop::new(lexer_at(w, s, start, kani::any(), kani::any()));
    let r = lxr.next_char();
    let loc = lxr.location.to_u32();
    match w[0] {
        None => {
            assert!(r.is_none());
            assert!(loc == start);
        }
        Some('\r') => {
            assert!(r == Some('\n'));
            if w[1] == Some('\n') {
                assert!(loc == start + 2);
                assert!(lxr.window[0] == w[2] && lxr.window[1] == s[0] && lxr.window[2] == s[1]);
            } else {
                assert!(loc == start + 1);
                assert!(lxr.window[0] == w[1] && lxr.window[1] == w[2] && lxr.window[2] == s[0]);
            }
        }
        Some(c) => {
            assert!(r == Some(c));
            assert!(loc == start + c.len_utf8() as u32);
            assert!(lxr.window[0] == w[1] && lxr.window[1] == w[2] && lxr.window[2] == s[0]);
        }
    }
    kani::cover!(w[0] == Some('\r') && w[1] == Some('\n'));
    kani::cover!(w[0].is_none());
    kani::cover!(loc == start + 4);
}

// @ob id=C05.k.lexer_new props=C05,C03 kind=complete tier=quick
// @clause a leading BOM is skipped and counted as 3 bytes; otherwise the position is the start offset; the window holds the first three characters after it
// @fns Lexer::new CharWindow::new CharWindow::slide
#[kani::proof]
#[kani::unwind(6)]
fn c05_lexer_new() {
    let s: [Option<char>; 4] = [kani::any(), kani::any(), kani::any(), kani::any()];
    kani::assume(s[0].is_some() || s[1].is_none());
    kani::assume(s[1].is_some() || s[2].is_none());
    kani::assume(s[2].is_some() || s[3].is_none());
    let start: u32 = kani::any();
    kani::assume(start <= MAX_START);
    let lxr = ManuallyDrop::new(Lexer::new(Src { items: s, i: 0 }, TextSize::new(start)));
    if s[0] == Some('\u{feff}') {
        assert!(lxr.location.to_u32() == start + 3);
        assert!(lxr.window[0] == s[1] && lxr.window[1] == s[2] && lxr.window[2] == s[3]);
    } else {
        assert!(lxr.location.to_u32() == start);
        assert!(lxr.window[0] == s[0] && lxr.window[1] == s[1] && lxr.window[2] == s[2]);
    }
    assert!(lxr.nesting == 0 && lxr.at_begin_of_line && lxr.pending.is_empty());
    assert!(lxr.indentations.indent_stack.len() == 1);
    kani::cover!(s[0] == Some('\u{feff}'));
    kani::cover!(s[0].is_none());
}

/// Python's operator and delimiter spellings (Grammar/Tokens), as (first, second, third) chars.
/// Returns the id (index into OPS) and length of the LONGEST spelling that is a prefix of the window.
#[derive(Clone, Copy, PartialEq, Eq)]
enum Op {
    EqEqual, Equal, PlusEqual, Plus, StarEqual, DoubleStarEqual, DoubleStar, Star, SlashEqual, DoubleSlashEqual,
    DoubleSlash, Slash, PercentEqual, Percent, VbarEqual, Vbar, CircumflexEqual, CircumFlex, AmperEqual, Amper,
    MinusEqual, Rarrow, Minus, AtEqual, At, NotEqual, Tilde, Lpar, Rpar, Lsqb, Rsqb, Lbrace, Rbrace, ColonEqual,
    Colon, Semi, LeftShiftEqual, LeftShift, LessEqual, Less, RightShiftEqual, RightShift, GreaterEqual, Greater,
    Comma, Ellipsis, Dot,
}

fn py_longest_op(c0: char, c1: Option<char>, c2: Option<char>) -> Option<(Op, u32)> {
    let e1 = c1 == Some('=');
    let e2 = c2 == Some('=');
    Some(match c0 {
        '=' => if e1 { (Op::EqEqual, 2) } else { (Op::Equal, 1) },
        '+' => if e1 { (Op::PlusEqual, 2) } else { (Op::Plus, 1) },
        '*' => if c1 == Some('*') { if e2 { (Op::DoubleStarEqual, 3) } else { (Op::DoubleStar, 2) } } else if e1 { (Op::StarEqual, 2) } else { (Op::Star, 1) },
        '/' => if c1 == Some('/') { if e2 { (Op::DoubleSlashEqual, 3) } else { (Op::DoubleSlash, 2) } } else if e1 { (Op::SlashEqual, 2) } else { (Op::Slash, 1) },
        '%' => if e1 { (Op::PercentEqual, 2) } else { (Op::Percent, 1) },
        '|' => if e1 { (Op::VbarEqual, 2) } else { (Op::Vbar, 1) },
        '^' => if e1 { (Op::CircumflexEqual, 2) } else { (Op::CircumFlex, 1) },
        '&' => if e1 { (Op::AmperEqual, 2) } else { (Op::Amper, 1) },
        '-' => if e1 { (Op::MinusEqual, 2) } else if c1 == Some('>') { (Op::Rarrow, 2) } else { (Op::Minus, 1) },
        '@' => if e1 { (Op::AtEqual, 2) } else { (Op::At, 1) },
        '!' => if e1 { (Op::NotEqual, 2) } else { return None },
        '~' => (Op::Tilde, 1),
        '(' => (Op::Lpar, 1),
        ')' => (Op::Rpar, 1),
        '[' => (Op::Lsqb, 1),
        ']' => (Op::Rsqb, 1),
        '{' => (Op::Lbrace, 1),
        '}' => (Op::Rbrace, 1),
        ':' => if e1 { (Op::ColonEqual, 2) } else { (Op::Colon, 1) },
        ';' => (Op::Semi, 1),
        '<' => if c1 == Some('<') { if e2 { (Op::LeftShiftEqual, 3) } else { (Op::LeftShift, 2) } } else if e1 { (Op::LessEqual, 2) } else { (Op::Less, 1) },
        '>' => if c1 == Some('>') { if e2 { (Op::RightShiftEqual, 3) } else { (Op::RightShift, 2) } } else if e1 { (Op::GreaterEqual, 2) } else { (Op::Greater, 1) },
        ',' => (Op::Comma, 1),
        '.' => if c1 == Some('.') && c2 == Some('.') { (Op::Ellipsis, 3) } else { (Op::Dot, 1) },
        _ => return None,
    })
}

fn tok_is(t: &Tok, op: Op) -> bool {
    match op {
        Op::EqEqual => matches!(t, Tok::EqEqual), Op::Equal => matches!(t, Tok::Equal),
        Op::PlusEqual => matches!(t, Tok::PlusEqual), Op::Plus => matches!(t, Tok::Plus),
        Op::StarEqual => matches!(t, Tok::StarEqual), Op::DoubleStarEqual => matches!(t, Tok::DoubleStarEqual),
        Op::DoubleStar => matches!(t, Tok::DoubleStar), Op::Star => matches!(t, Tok::Star),
        Op::SlashEqual => matches!(t, Tok::SlashEqual), Op::DoubleSlashEqual => matches!(t, Tok::DoubleSlashEqual),
        Op::DoubleSlash => matches!(t, Tok::DoubleSlash), Op::Slash => matches!(t, Tok::Slash),
        Op::PercentEqual => matches!(t, Tok::PercentEqual), Op::Percent => matches!(t, Tok::Percent),
        Op::VbarEqual => matches!(t, Tok::VbarEqual), Op::Vbar => matches!(t, Tok::Vbar),
        Op::CircumflexEqual => matches!(t, Tok::CircumflexEqual), Op::CircumFlex => matches!(t, Tok::CircumFlex),
        Op::AmperEqual => matches!(t, Tok::AmperEqual), Op::Amper => matches!(t, Tok::Amper),
        Op::MinusEqual => matches!(t, Tok::MinusEqual), Op::Rarrow => matches!(t, Tok::Rarrow),
        Op::Minus => matches!(t, Tok::Minus), Op::AtEqual => matches!(t, Tok::AtEqual), Op::At => matches!(t, Tok::At),
        Op::NotEqual => matches!(t, Tok::NotEqual), Op::Tilde => matches!(t, Tok::Tilde),
        Op::Lpar => matches!(t, Tok::Lpar), Op::Rpar => matches!(t, Tok::Rpar), Op::Lsqb => matches!(t, Tok::Lsqb),
        Op::Rsqb => matches!(t, Tok::Rsqb), Op::Lbrace => matches!(t, Tok::Lbrace), Op::Rbrace => matches!(t, Tok::Rbrace),
        Op::ColonEqual => matches!(t, Tok::ColonEqual), Op::Colon => matches!(t, Tok::Colon), Op::Semi => matches!(t, Tok::Semi),
        Op::LeftShiftEqual => matches!(t, Tok::LeftShiftEqual), Op::LeftShift => matches!(t, Tok::LeftShift),
        Op::LessEqual => matches!(t, Tok::LessEqual), Op::Less => matches!(t, Tok::Less),
        Op::RightShiftEqual => matches!(t, Tok::RightShiftEqual), Op::RightShift => matches!(t, Tok::RightShift),
        Op::GreaterEqual => matches!(t, Tok::GreaterEqual), Op::Greater => matches!(t, Tok::Greater),
        Op::Comma => matches!(t, Tok::Comma), Op::Ellipsis => matches!(t, Tok::Ellipsis), Op::Dot => matches!(t, Tok::Dot),
    }
}

/// Contract of one operator/delimiter step, checked for a CONCRETE first character `c0` (so that
/// CBMC resolves consume_character's dispatch) and a fully symbolic rest of the stream.
fn operator_step_for(c0: char) {
    let (mut w, s) = any_stream();
    w[0] = Some(c0);
    let start: u32 = kani::any();
    kani::assume(start <= MAX_START);
    let nesting: usize = kani::any();
    kani::assume(nesting < usize::MAX);
    let bol: bool = kani::any();
    let spec = py_longest_op(c0, w[1], w[2]);
    // '.' followed by a digit is a number and '!' alone is an error (own obligations)
    kani::assume(spec.is_some());
    kani::assume(!(c0 == '.' && matches!(w[1], Some('0'..='9'))));
    let (op, len) = spec.unwrap();
    let mut lxr = ManuallyDrop::new(lexer_at(w, s, start, nesting, bol));
    let r = ManuallyDrop::new(lxr.consume_character(c0));
    let closing = matches!(op, Op::Rpar | Op::Rsqb | Op::Rbrace);
    let opening = matches!(op, Op::Lpar | Op::Lsqb | Op::Lbrace);
    // the token is emitted in every case (also before a NestingError is reported)
    assert!(lxr.pending.len() == 1);
    let (tok, range) = &lxr.pending[0];
    assert!(tok_is(tok, op));
    assert!(range.start().to_u32() == start);
    assert!(range.end().to_u32() == start + len);
    assert!(lxr.location.to_u32() == start + len);
    assert!(lxr.at_begin_of_line == bol);
    match &*r {
        Ok(()) => {
            assert!(!(closing && nesting == 0));
            if opening {
                assert!(lxr.nesting == nesting + 1);
            } else if closing {
                assert!(lxr.nesting == nesting - 1);
            } else {
                assert!(lxr.nesting == nesting);
            }
        }
        Err(e) => {
            assert!(closing && nesting == 0);
            assert!(matches!(e.error, LexicalErrorType::NestingError));
            assert!(e.location.to_u32() == start + 1);
        }
    }
    kani::cover!(len == 1 || c0 == '!');
    kani::cover!(len >= 2 || py_longest_op(c0, Some('='), Some('=')).map(|x| x.1) == Some(1));
}

macro_rules! op_step {
    ($name:ident, $c:expr) => {
        #[kani::proof]
        #[kani::unwind(6)]
        #[kani::stub(Lexer::lex_number, lex_number_unreachable)]
        #[kani::stub(Lexer::lex_string, lex_string_unreachable)]
        fn $name() {
            // the number and string scanners are replaced by functions that fail when reached:
            // an operator character is never routed to them
            operator_step_for($c);
        }
    };
}

// @ob id=C05.k.op_lpar props=C05,C03,C04 kind=complete tier=quick
// @clause one emit per operator/delimiter lexeme starting with '(' (forms: (): for every continuation of the stream exactly one token is pushed, it is the LONGEST Python operator spelled by the window prefix, its range is [pos, pos+len) so the text under the token spells it, the position ends at pos+len ; bracket depth +1/-1, and a closing bracket at depth 0 is a NestingError located just after it
// @fns Lexer::consume_character Lexer::eat_single_char Lexer::emit Lexer::get_pos Lexer::next_char
op_step!(c05_op_lpar, '(');

// @ob id=C05.k.op_rpar props=C05,C03,C04 kind=complete tier=quick
// @clause one emit per operator/delimiter lexeme starting with ')' (forms: )): for every continuation of the stream exactly one token is pushed, it is the LONGEST Python operator spelled by the window prefix, its range is [pos, pos+len) so the text under the token spells it, the position ends at pos+len ; bracket depth +1/-1, and a closing bracket at depth 0 is a NestingError located just after it
// @fns Lexer::consume_character Lexer::eat_single_char Lexer::emit Lexer::get_pos Lexer::next_char
op_step!(c05_op_rpar, ')');

// @ob id=C05.k.op_lsqb props=C05,C03,C04 kind=complete tier=quick
// @clause one emit per operator/delimiter lexeme starting with '[' (forms: [): for every continuation of the stream exactly one token is pushed, it is the LONGEST Python operator spelled by the window prefix, its range is [pos, pos+len) so the text under the token spells it, the position ends at pos+len ; bracket depth +1/-1, and a closing bracket at depth 0 is a NestingError located just after it
// @fns Lexer::consume_character Lexer::eat_single_char Lexer::emit Lexer::get_pos Lexer::next_char
op_step!(c05_op_lsqb, '[');

// @ob id=C05.k.op_rsqb props=C05,C03,C04 kind=complete tier=quick
// @clause one emit per operator/delimiter lexeme starting with ']' (forms: ]): for every continuation of the stream exactly one token is pushed, it is the LONGEST Python operator spelled by the window prefix, its range is [pos, pos+len) so the text under the token spells it, the position ends at pos+len ; bracket depth +1/-1, and a closing bracket at depth 0 is a NestingError located just after it
// @fns Lexer::consume_character Lexer::eat_single_char Lexer::emit Lexer::get_pos Lexer::next_char
op_step!(c05_op_rsqb, ']');

// @ob id=C05.k.op_lbrace props=C05,C03,C04 kind=complete tier=quick
// @clause one emit per operator/delimiter lexeme starting with '{' (forms: {): for every continuation of the stream exactly one token is pushed, it is the LONGEST Python operator spelled by the window prefix, its range is [pos, pos+len) so the text under the token spells it, the position ends at pos+len ; bracket depth +1/-1, and a closing bracket at depth 0 is a NestingError located just after it
// @fns Lexer::consume_character Lexer::eat_single_char Lexer::emit Lexer::get_pos Lexer::next_char
op_step!(c05_op_lbrace, '{');

// @ob id=C05.k.op_rbrace props=C05,C03,C04 kind=complete tier=quick
// @clause one emit per operator/delimiter lexeme starting with '}' (forms: }): for every continuation of the stream exactly one token is pushed, it is the LONGEST Python operator spelled by the window prefix, its range is [pos, pos+len) so the text under the token spells it, the position ends at pos+len ; bracket depth +1/-1, and a closing bracket at depth 0 is a NestingError located just after it
// @fns Lexer::consume_character Lexer::eat_single_char Lexer::emit Lexer::get_pos Lexer::next_char
op_step!(c05_op_rbrace, '}');

// @ob id=C05.k.op_equal props=C05,C03 kind=complete tier=quick
// @clause one emit per operator/delimiter lexeme starting with '=' (forms: = ==): for every continuation of the stream exactly one token is pushed, it is the LONGEST Python operator spelled by the window prefix, its range is [pos, pos+len) so the text under the token spells it, the position ends at pos+len
// @fns Lexer::consume_character Lexer::eat_single_char Lexer::emit Lexer::get_pos Lexer::next_char
op_step!(c05_op_equal, '=');

// @ob id=C05.k.op_plus props=C05,C03 kind=complete tier=quick
// @clause one emit per operator/delimiter lexeme starting with '+' (forms: + +=): for every continuation of the stream exactly one token is pushed, it is the LONGEST Python operator spelled by the window prefix, its range is [pos, pos+len) so the text under the token spells it, the position ends at pos+len
// @fns Lexer::consume_character Lexer::eat_single_char Lexer::emit Lexer::get_pos Lexer::next_char
op_step!(c05_op_plus, '+');

// @ob id=C05.k.op_percent props=C05,C03 kind=complete tier=quick
// @clause one emit per operator/delimiter lexeme starting with '%' (forms: % %=): for every continuation of the stream exactly one token is pushed, it is the LONGEST Python operator spelled by the window prefix, its range is [pos, pos+len) so the text under the token spells it, the position ends at pos+len
// @fns Lexer::consume_character Lexer::eat_single_char Lexer::emit Lexer::get_pos Lexer::next_char
op_step!(c05_op_percent, '%');

// @ob id=C05.k.op_vbar props=C05,C03 kind=complete tier=quick
// @clause one emit per operator/delimiter lexeme starting with '|' (forms: | |=): for every continuation of the stream exactly one token is pushed, it is the LONGEST Python operator spelled by the window prefix, its range is [pos, pos+len) so the text under the token spells it, the position ends at pos+len
// @fns Lexer::consume_character Lexer::eat_single_char Lexer::emit Lexer::get_pos Lexer::next_char
op_step!(c05_op_vbar, '|');

// @ob id=C05.k.op_circumflex props=C05,C03 kind=complete tier=quick
// @clause one emit per operator/delimiter lexeme starting with '^' (forms: ^ ^=): for every continuation of the stream exactly one token is pushed, it is the LONGEST Python operator spelled by the window prefix, its range is [pos, pos+len) so the text under the token spells it, the position ends at pos+len
// @fns Lexer::consume_character Lexer::eat_single_char Lexer::emit Lexer::get_pos Lexer::next_char
op_step!(c05_op_circumflex, '^');

// @ob id=C05.k.op_amper props=C05,C03 kind=complete tier=quick
// @clause one emit per operator/delimiter lexeme starting with '&' (forms: & &=): for every continuation of the stream exactly one token is pushed, it is the LONGEST Python operator spelled by the window prefix, its range is [pos, pos+len) so the text under the token spells it, the position ends at pos+len
// @fns Lexer::consume_character Lexer::eat_single_char Lexer::emit Lexer::get_pos Lexer::next_char
op_step!(c05_op_amper, '&');

// @ob id=C05.k.op_at props=C05,C03 kind=complete tier=quick
// @clause one emit per operator/delimiter lexeme starting with '@' (forms: @ @=): for every continuation of the stream exactly one token is pushed, it is the LONGEST Python operator spelled by the window prefix, its range is [pos, pos+len) so the text under the token spells it, the position ends at pos+len
// @fns Lexer::consume_character Lexer::eat_single_char Lexer::emit Lexer::get_pos Lexer::next_char
op_step!(c05_op_at, '@');

// @ob id=C05.k.op_colon props=C05,C03 kind=complete tier=quick
// @clause one emit per operator/delimiter lexeme starting with ':' (forms: : :=): for every continuation of the stream exactly one token is pushed, it is the LONGEST Python operator spelled by the window prefix, its range is [pos, pos+len) so the text under the token spells it, the position ends at pos+len
// @fns Lexer::consume_character Lexer::eat_single_char Lexer::emit Lexer::get_pos Lexer::next_char
op_step!(c05_op_colon, ':');

// @ob id=C05.k.op_bang props=C05,C03 kind=complete tier=quick
// @clause one emit per operator/delimiter lexeme starting with '!' (forms: !=): for every continuation of the stream exactly one token is pushed, it is the LONGEST Python operator spelled by the window prefix, its range is [pos, pos+len) so the text under the token spells it, the position ends at pos+len
// @fns Lexer::consume_character Lexer::eat_single_char Lexer::emit Lexer::get_pos Lexer::next_char
op_step!(c05_op_bang, '!');

// @ob id=C05.k.op_tilde props=C05,C03 kind=complete tier=quick
// @clause one emit per operator/delimiter lexeme starting with '~' (forms: ~): for every continuation of the stream exactly one token is pushed, it is the LONGEST Python operator spelled by the window prefix, its range is [pos, pos+len) so the text under the token spells it, the position ends at pos+len
// @fns Lexer::consume_character Lexer::eat_single_char Lexer::emit Lexer::get_pos Lexer::next_char
op_step!(c05_op_tilde, '~');

// @ob id=C05.k.op_semi props=C05,C03 kind=complete tier=quick
// @clause one emit per operator/delimiter lexeme starting with ';' (forms: ;): for every continuation of the stream exactly one token is pushed, it is the LONGEST Python operator spelled by the window prefix, its range is [pos, pos+len) so the text under the token spells it, the position ends at pos+len
// @fns Lexer::consume_character Lexer::eat_single_char Lexer::emit Lexer::get_pos Lexer::next_char
op_step!(c05_op_semi, ';');

// @ob id=C05.k.op_comma props=C05,C03 kind=complete tier=quick
// @clause one emit per operator/delimiter lexeme starting with ',' (forms: ,): for every continuation of the stream exactly one token is pushed, it is the LONGEST Python operator spelled by the window prefix, its range is [pos, pos+len) so the text under the token spells it, the position ends at pos+len
// @fns Lexer::consume_character Lexer::eat_single_char Lexer::emit Lexer::get_pos Lexer::next_char
op_step!(c05_op_comma, ',');

// @ob id=C05.k.op_star props=C05,C03 kind=complete tier=quick
// @clause one emit per operator/delimiter lexeme starting with '*' (forms: * ** **= *=): for every continuation of the stream exactly one token is pushed, it is the LONGEST Python operator spelled by the window prefix, its range is [pos, pos+len) so the text under the token spells it, the position ends at pos+len
// @fns Lexer::consume_character Lexer::eat_single_char Lexer::emit Lexer::get_pos Lexer::next_char
op_step!(c05_op_star, '*');

// @ob id=C05.k.op_slash props=C05,C03 kind=complete tier=quick
// @clause one emit per operator/delimiter lexeme starting with '/' (forms: / // //= /=): for every continuation of the stream exactly one token is pushed, it is the LONGEST Python operator spelled by the window prefix, its range is [pos, pos+len) so the text under the token spells it, the position ends at pos+len
// @fns Lexer::consume_character Lexer::eat_single_char Lexer::emit Lexer::get_pos Lexer::next_char
op_step!(c05_op_slash, '/');

// @ob id=C05.k.op_less props=C05,C03 kind=complete tier=quick
// @clause one emit per operator/delimiter lexeme starting with '<' (forms: < << <<= <=): for every continuation of the stream exactly one token is pushed, it is the LONGEST Python operator spelled by the window prefix, its range is [pos, pos+len) so the text under the token spells it, the position ends at pos+len
// @fns Lexer::consume_character Lexer::eat_single_char Lexer::emit Lexer::get_pos Lexer::next_char
op_step!(c05_op_less, '<');

// @ob id=C05.k.op_greater props=C05,C03 kind=complete tier=quick
// @clause one emit per operator/delimiter lexeme starting with '>' (forms: > >> >>= >=): for every continuation of the stream exactly one token is pushed, it is the LONGEST Python operator spelled by the window prefix, its range is [pos, pos+len) so the text under the token spells it, the position ends at pos+len
// @fns Lexer::consume_character Lexer::eat_single_char Lexer::emit Lexer::get_pos Lexer::next_char
op_step!(c05_op_greater, '>');

// @ob id=C05.k.op_minus props=C05,C03 kind=complete tier=quick
// @clause one emit per operator/delimiter lexeme starting with '-' (forms: - -= ->): for every continuation of the stream exactly one token is pushed, it is the LONGEST Python operator spelled by the window prefix, its range is [pos, pos+len) so the text under the token spells it, the position ends at pos+len
// @fns Lexer::consume_character Lexer::eat_single_char Lexer::emit Lexer::get_pos Lexer::next_char
op_step!(c05_op_minus, '-');

// @ob id=C05.k.op_dot props=C05,C03 kind=complete tier=quick
// @clause one emit per operator/delimiter lexeme starting with '.' (forms: . ...): for every continuation of the stream exactly one token is pushed, it is the LONGEST Python operator spelled by the window prefix, its range is [pos, pos+len) so the text under the token spells it, the position ends at pos+len
// @fns Lexer::consume_character Lexer::eat_single_char Lexer::emit Lexer::get_pos Lexer::next_char
#[kani::proof]
#[kani::unwind(6)]
#[kani::stub(Lexer::lex_number, lex_number_unreachable)]
fn c05_op_dot() {
    // '.' followed by a digit starts a number (own obligation C05.k.dot_digit_is_number); here the
    // number scanner is replaced by a function that fails when reached: the dispatch never calls it
    operator_step_for('.');
}

/// Stand-in that turns "this callee is not reached" into a checked obligation.
fn lex_number_unreachable<T: Iterator<Item = char>>(_l: &mut Lexer<T>) -> LexResult {
    panic!("lex_number reached")
}

fn lex_string_unreachable<T: Iterator<Item = char>>(_l: &mut Lexer<T>, _k: StringKind) -> LexResult {
    panic!("lex_string reached")
}
fn lex_comment_unreachable<T: Iterator<Item = char>>(_l: &mut Lexer<T>) -> Result<(), LexicalError> {
    panic!("lex_and_emit_comment reached")
}

static mut LEX_NUMBER_CALLS: u32 = 0;
fn lex_number_recorder<T: Iterator<Item = char>>(l: &mut Lexer<T>) -> LexResult {
    unsafe {
        LEX_NUMBER_CALLS += 1;
    }
    let p = l.get_pos();
    Ok((Tok::Dot, TextRange::empty(p)))
}

// @ob id=C05.k.dot_digit_is_number props=C05,C06 kind=complete tier=quick
// @clause a '.' directly followed by a digit is handed to the number scanner (so .5 is a float, not Dot then Int), exactly once, without consuming anything first, and whatever it returns is emitted
// @fns Lexer::consume_character
#[kani::proof]
#[kani::unwind(6)]
#[kani::stub(Lexer::lex_number, lex_number_recorder)]
fn c05_dot_digit_is_number() {
    let (mut w, s) = any_stream();
    w[0] = Some('.');
    kani::assume(matches!(w[1], Some('0'..='9')));
    let start: u32 = kani::any();
    kani::assume(start <= MAX_START);
    let mut lxr = ManuallyDrop::new(lexer_at(w, s, start, kani::any(), kani::any()));
    let r = ManuallyDrop::new(lxr.consume_character('.'));
    assert!(r.is_ok());
    assert!(unsafe { LEX_NUMBER_CALLS } == 1);
    assert!(lxr.pending.len() == 1);
    assert!(lxr.location.to_u32() == start);
}

// @ob id=C04.k.bang_alone props=C04,C05,C03 kind=complete tier=quick
// @clause a character that cannot begin a token: '!' not followed by '=' is UnrecognizedToken('!') located at the '!'; nothing is emitted
// @fns Lexer::consume_character
#[kani::proof]
#[kani::unwind(6)]
#[kani::stub(Lexer::lex_number, lex_number_unreachable)]
#[kani::stub(Lexer::lex_string, lex_string_unreachable)]
#[kani::stub(Lexer::lex_and_emit_comment, lex_comment_unreachable)]
fn c04_bang_alone() {
    let (w, s) = any_stream();
    let start: u32 = kani::any();
    kani::assume(start <= MAX_START);
    kani::assume(w[0] == Some('!') && w[1] != Some('='));
    let mut lxr = ManuallyDrop::new(lexer_at(w, s, start, kani::any(), kani::any()));
    let r = ManuallyDrop::new(lxr.consume_character('!'));
    match &*r {
        Ok(()) => assert!(false),
        Err(e) => {
            assert!(matches!(e.error, LexicalErrorType::UnrecognizedToken { tok: '!' }));
            assert!(e.location.to_u32() == start);
        }
    }
    assert!(lxr.pending.is_empty());
}

// @ob id=C05.k.newline_step props=C05,C03 kind=complete tier=quick
// @clause NEWLINE is produced only outside brackets: on LF / CR / CR LF the step consumes exactly that line break; at depth 0 it emits Newline with the break's exact range and marks the start of a logical line; inside brackets it emits no Newline (a NonLogicalNewline with the same range under full-lexer) and leaves the line-start flag alone
// @fns Lexer::consume_character Lexer::next_char
#[kani::proof]
#[kani::unwind(6)]
#[kani::stub(Lexer::lex_number, lex_number_unreachable)]
#[kani::stub(Lexer::lex_string, lex_string_unreachable)]
#[kani::stub(Lexer::lex_and_emit_comment, lex_comment_unreachable)]
fn c05_newline_step() {
    let (w, s) = any_stream();
    let start: u32 = kani::any();
    kani::assume(start <= MAX_START);
    let nesting: usize = kani::any();
    let bol: bool = kani::any();
    let c0 = match w[0] {
        Some(c) => c,
        None => return,
    };
    kani::assume(c0 == '\n' || c0 == '\r');
    let len = head_len(c0, w[1]);
    let mut lxr = ManuallyDrop::new(lexer_at(w, s, start, nesting, bol));
    // concrete argument so that CBMC resolves the dispatch
    let r = ManuallyDrop::new(if c0 == '\n' { lxr.consume_character('\n') } else { lxr.consume_character('\r') });
    assert!(r.is_ok());
    assert!(lxr.location.to_u32() == start + len);
    assert!(lxr.nesting == nesting);
    if nesting == 0 {
        assert!(lxr.pending.len() == 1);
        let (tok, range) = &lxr.pending[0];
        assert!(matches!(tok, Tok::Newline));
        assert!(range.start().to_u32() == start && range.end().to_u32() == start + len);
        assert!(lxr.at_begin_of_line);
    } else {
        assert!(lxr.at_begin_of_line == bol);
        #[cfg(not(feature = "full-lexer"))]
        assert!(lxr.pending.is_empty());
        #[cfg(feature = "full-lexer")]
        {
            assert!(lxr.pending.len() == 1);
            let (tok, range) = &lxr.pending[0];
            assert!(matches!(tok, Tok::NonLogicalNewline));
            assert!(range.start().to_u32() == start && range.end().to_u32() == start + len);
        }
    }
    kani::cover!(len == 2);
    kani::cover!(nesting > 0);
}

// @ob id=C04.k.line_continuation props=C04,C05,C03 kind=complete tier=quick
// @clause anything but a line break after a line-continuation backslash is rejected: after '\\' a LF/CR/CRLF is consumed silently (no token), any other character (or end of input) is LineContinuationError located just after the backslash, and a join that ends the input is Eof located at the end
// @fns Lexer::consume_character
#[kani::proof]
#[kani::unwind(6)]
#[kani::stub(Lexer::lex_number, lex_number_unreachable)]
#[kani::stub(Lexer::lex_string, lex_string_unreachable)]
#[kani::stub(Lexer::lex_and_emit_comment, lex_comment_unreachable)]
fn c04_line_continuation() {
    let (w, s) = any_stream();
    let start: u32 = kani::any();
    kani::assume(start <= MAX_START);
    kani::assume(w[0] == Some('\\'));
    let nesting: usize = kani::any();
    let mut lxr = ManuallyDrop::new(lexer_at(w, s, start, nesting, kani::any()));
    let r = ManuallyDrop::new(lxr.consume_character('\\'));
    assert!(lxr.pending.is_empty());
    assert!(lxr.nesting == nesting);
    let is_break = matches!(w[1], Some('\n') | Some('\r'));
    match &*r {
        Ok(()) => {
            assert!(is_break);
            let l = head_len(w[1].unwrap(), w[2]);
            assert!(lxr.location.to_u32() == start + 1 + l);
            assert!(lxr.window[0].is_some());
        }
        Err(e) => {
            if !is_break {
                assert!(matches!(e.error, LexicalErrorType::LineContinuationError));
                assert!(e.location.to_u32() == start + 1);
            } else {
                let l = head_len(w[1].unwrap(), w[2]);
                assert!(matches!(e.error, LexicalErrorType::Eof));
                assert!(e.location.to_u32() == start + 1 + l);
                assert!(lxr.window[0].is_none());
            }
        }
    }
    kani::cover!(r.is_ok());
    kani::cover!(is_break && r.is_err());
    kani::cover!(!is_break && w[1].is_none());
}

static mut EMOJI: bool = false;
fn is_emoji_stub(_c: char) -> bool {
    unsafe { EMOJI }
}

// @ob id=C04.k.unrecognized_char props=C04,C05,C03 kind=complete tier=quick 
// @clause a character that cannot begin any token is rejected: every character outside the dispatch table and not emoji-presentation (classification abstracted by an arbitrary predicate) yields UnrecognizedToken carrying that character, located just after it, with nothing emitted
// @fns Lexer::consume_character
#[kani::proof]
#[kani::unwind(6)]
#[kani::stub(unic_emoji_char::is_emoji_presentation, is_emoji_stub)]
#[kani::stub(Lexer::lex_number, lex_number_unreachable)]
#[kani::stub(Lexer::lex_string, lex_string_unreachable)]
#[kani::stub(Lexer::lex_and_emit_comment, lex_comment_unreachable)]
fn c04_unrecognized_char() {
    let (w, s) = any_stream();
    let start: u32 = kani::any();
    kani::assume(start <= MAX_START);
    let c0 = match w[0] {
        Some(c) => c,
        None => return,
    };
    // outside the dispatch table of consume_character
    kani::assume(py_longest_op(c0, Some('='), None).is_none());
    kani::assume(!matches!(c0, '0'..='9' | '#' | '"' | '\'' | '\n' | '\r' | ' ' | '\t' | '\x0C' | '\\'));
    unsafe {
        EMOJI = false;
    }
    let mut lxr = ManuallyDrop::new(lexer_at(w, s, start, kani::any(), kani::any()));
    let r = ManuallyDrop::new(lxr.consume_character(c0));
    match &*r {
        Ok(()) => assert!(false),
        Err(e) => {
            match e.error {
                LexicalErrorType::UnrecognizedToken { tok } => assert!(tok == c0),
                _ => assert!(false),
            }
            assert!(e.location.to_u32() == start + c0.len_utf8() as u32);
        }
    }
    assert!(lxr.pending.is_empty());
    kani::cover!(c0.len_utf8() == 4);
    kani::cover!(c0 == '$');
}

// @ob id=C04.k.compare_strict props=C04,C03 kind=complete tier=quick
// @clause tab/space ambiguity: comparing two indentation levels is a TabError at the given position exactly when tabs and spaces differ in opposite directions; otherwise the order is decided by tabs, then spaces
// @fns IndentationLevel::compare_strict
#[kani::proof]
#[kani::unwind(4)]
fn c04_compare_strict() {
    let a = IndentationLevel { tabs: kani::any(), spaces: kani::any() };
    let b = IndentationLevel { tabs: kani::any(), spaces: kani::any() };
    let loc = TextSize::new(kani::any());
    let r = ManuallyDrop::new(a.compare_strict(&b, loc));
    let ambiguous = (a.tabs < b.tabs && a.spaces > b.spaces) || (a.tabs > b.tabs && a.spaces < b.spaces);
    match &*r {
        Err(e) => {
            assert!(ambiguous);
            assert!(matches!(e.error, LexicalErrorType::TabError));
            assert!(e.location == loc);
        }
        Ok(o) => {
            assert!(!ambiguous);
            let expect = if a.tabs == b.tabs { a.spaces.cmp(&b.spaces) } else { a.tabs.cmp(&b.tabs) };
            assert!(*o == expect);
        }
    }
    kani::cover!(ambiguous);
    kani::cover!(matches!(&*r, Ok(Ordering::Equal)));
}

// @ob id=C06.k.digit_of_radix props=C06,C03 kind=complete tier=quick
// @clause digit classes of integer literals: for radix 2, 8, 10, 16 a character is a digit exactly when Python's grammar says so (bindigit, octdigit, digit, hexdigit in either case); end of input is never a digit
// @fns Lexer::is_digit_of_radix
#[kani::proof]
fn c06_digit_of_radix() {
    let c: Option<char> = kani::any();
    let radix: u32 = kani::any();
    kani::assume(radix == 2 || radix == 8 || radix == 10 || radix == 16);
    let r = Lexer::<Src>::is_digit_of_radix(c, radix);
    let expect = match c {
        None => false,
        Some(ch) => {
            let v = ch as u32;
            let val = if v >= '0' as u32 && v <= '9' as u32 {
                Some(v - '0' as u32)
            } else if v >= 'a' as u32 && v <= 'f' as u32 {
                Some(v - 'a' as u32 + 10)
            } else if v >= 'A' as u32 && v <= 'F' as u32 {
                Some(v - 'A' as u32 + 10)
            } else {
                None
            };
            match val {
                Some(d) => d < radix,
                None => false,
            }
        }
    };
    assert!(r == expect);
    kani::cover!(r && radix == 16);
    kani::cover!(!r && c.is_some());
}

// @ob id=C06.k.number_dispatch props=C06,C03 kind=complete tier=quick
// @clause base prefixes: after 0x/0X, 0o/0O, 0b/0B the digit run uses radix 16, 8, 2 - the only radixes is_digit_of_radix is ever asked for besides 10 (so its unimplemented!() arm is unreachable from the lexer)
// @fns Lexer::at_exponent
#[kani::proof]
#[kani::unwind(6)]
fn c06_at_exponent() {
    let (w, s) = any_stream();
    let lxr = ManuallyDrop::new(lexer_at(w, s, 0, 0, false));
    let r = lxr.at_exponent();
    let is_e = matches!(w[0], Some('e') | Some('E'));
    let d = |c: Option<char>| matches!(c, Some('0'..='9'));
    let expect = is_e && (d(w[1]) || (matches!(w[1], Some('+') | Some('-')) && d(w[2])));
    assert!(r == expect);
    kani::cover!(r);
}

// @ob id=C05.k.canary props=C05,C03,C04,C06 kind=canary
// @clause vacuity guard: a false claim about next_char must be refuted
// @fns Lexer::next_char
#[kani::proof]
#[kani::unwind(6)]
fn c05_canary() {
    let (w, s) = any_stream();
    let mut lxr = ManuallyDrop::new(lexer_at(w, s, 0, 0, false));
    let _ = lxr.next_char();
    assert!(lxr.location.to_u32() != 2);
}
