// Kani harnesses for parser/src/lexer.rs (child module: sees Lexer's private fields and methods).
// Every harness that can see a LexicalError carries an unwind bound: it only cuts the recursive
// drop glue of FStringErrorType::InvalidExpression(Box<ParseErrorType>); unwinding assertions stay on.
use super::*;
use std::mem::ManuallyDrop;

/// Source iterator: up to 4 further look-ahead characters, fully symbolic.
pub(super) struct Src {
    items: [Option<char>; 4],
    i: usize,
}
impl Iterator for Src {
    type Item = char;
    fn next(&mut self) -> Option<char> {
        if self.i < 4 {
            let c = self.items[self.i];
            self.i += 1;
            c
        } else {
            None
        }
    }
}

/// A lexer in an arbitrary mid-text state: symbolic 3-char window + 4 symbolic source chars.
/// Invariant of a char stream: once exhausted it stays exhausted.
fn any_stream() -> ([Option<char>; 3], [Option<char>; 4]) {
    // element by element: no array-generation loop, so small unwind bounds stay sufficient
    let w: [Option<char>; 3] = [kani::any(), kani::any(), kani::any()];
    let s: [Option<char>; 4] = [kani::any(), kani::any(), kani::any(), kani::any()];
    kani::assume(w[0].is_some() || w[1].is_none());
    kani::assume(w[1].is_some() || w[2].is_none());
    kani::assume(w[2].is_some() || s[0].is_none());
    kani::assume(s[0].is_some() || s[1].is_none());
    kani::assume(s[1].is_some() || s[2].is_none());
    kani::assume(s[2].is_some() || s[3].is_none());
    (w, s)
}

fn lexer_at(w: [Option<char>; 3], s: [Option<char>; 4], start: u32, nesting: usize, bol: bool) -> Lexer<Src> {
    Lexer {
        at_begin_of_line: bol,
        nesting,
        indentations: Indentations::default(),
        pending: Vec::with_capacity(5),
        location: TextSize::new(start),
        window: CharWindow { source: Src { items: s, i: 0 }, window: w },
    }
}

/// Number of source bytes one logical character occupies at the head of the stream:
/// CR LF is two bytes, everything else its UTF-8 length.
fn head_len(c0: char, c1: Option<char>) -> u32 {
    if c0 == '\r' && c1 == Some('\n') {
        2
    } else {
        c0.len_utf8() as u32
    }
}

/// The statement's hypothesis "any length that fits the 32-bit offset space": the part of the text
/// a single step can consume (at most 7 chars of at most 4 bytes) still fits.
const MAX_START: u32 = u32::MAX - 32;

// @ob id=C05.k.next_char props=C05,C03,C06 kind=complete tier=quick
// @clause byte-accurate position bookkeeping: next_char returns the head character (CR and CR LF folded to one '\n'), advances the position by exactly the bytes consumed (CR LF = 2, CR = 1, otherwise the UTF-8 length), shifts the window by one logical character, and at end of input returns None leaving the position unchanged
// @fns Lexer::next_char CharWindow::slide
#[kani::proof]
#[kani::unwind(6)]
fn c05_next_char() {
    let (w, s) = any_stream();
    let start: u32 = kani::any();
    kani::assume(start <= MAX_START);
    let mut lxr = ManuallyDrop::new(lexer_at(w, s, start, kani::any(), kani::any()));
    let r = lxr.next_char();
    let loc = lxr.location.to_u32();
    match w[0] {
        None => {
            assert!(r.is_none());
            assert!(loc == start);
        }
        Some('\r') => {
            assert!(r == Some('\n'));
            if w[1] == Some('\n') {
                assert!(loc == start + 2);
                assert!(lxr.window[0] == w[2] && lxr.window[1] == s[0] && lxr.window[2] == s[1]);
            } else {
                assert!(loc == start + 1);
                assert!(lxr.window[0] == w[1] && lxr.window[1] == w[2] && lxr.window[2] == s[0]);
            }
        }
        Some(c) => {
            assert!(r == Some(c));
            assert!(loc == start + c.len_utf8() as u32);
            assert!(lxr.window[0] == w[1] && lxr.window[1] == w[2] && lxr.window[2] == s[0]);
        }
    }
    kani::cover!(w[0] == Some('\r') && w[1] == Some('\n'));
    kani::cover!(w[0].is_none());
    kani::cover!(loc == start + 4);
}

// @ob id=C05.k.lexer_new props=C05,C03 kind=complete tier=quick
// @clause a leading BOM is skipped and counted as 3 bytes; otherwise the position is the start offset; the window holds the first three characters after it
// @fns Lexer::new CharWindow::new CharWindow::slide
#[kani::proof]
#[kani::unwind(6)]
fn c05_lexer_new() {
    let s: [Option<char>; 4] = [kani::any(), kani::any(), kani::any(), kani::any()];
    kani::assume(s[0].is_some() || s[1].is_none());
    kani::assume(s[1].is_some() || s[2].is_none());
    kani::assume(s[2].is_some() || s[3].is_none());
    let start: u32 = kani::any();
    kani::assume(start <= MAX_START);
    let lxr = ManuallyDrop::new(Lexer::new(Src { items: s, i: 0 }, TextSize::new(start)));
    if s[0] == Some('\u{feff}') {
        assert!(lxr.location.to_u32() == start + 3);
        assert!(lxr.window[0] == s[1] && lxr.window[1] == s[2] && lxr.window[2] == s[3]);
    } else {
        assert!(lxr.location.to_u32() == start);
        assert!(lxr.window[0] == s[0] && lxr.window[1] == s[1] && lxr.window[2] == s[2]);
    }
    assert!(lxr.nesting == 0 && lxr.at_begin_of_line && lxr.pending.is_empty());
    assert!(lxr.indentations.indent_stack.len() == 1);
    kani::cover!(s[0] == Some('\u{feff}'));
    kani::cover!(s[0].is_none());
}

/// Python's operator and delimiter spellings (Grammar/Tokens), as (first, second, third) chars.
/// Returns the id (index into OPS) and length of the LONGEST spelling that is a prefix of the window.
#[derive(Clone, Copy, PartialEq, Eq)]
enum Op {
    EqEqual, Equal, PlusEqual, Plus, StarEqual, DoubleStarEqual, DoubleStar, Star, SlashEqual, DoubleSlashEqual,
    DoubleSlash, Slash, PercentEqual, Percent, VbarEqual, Vbar, CircumflexEqual, CircumFlex, AmperEqual, Amper,
    MinusEqual, Rarrow, Minus, AtEqual, At, NotEqual, Tilde, Lpar, Rpar, Lsqb, Rsqb, Lbrace, Rbrace, ColonEqual,
    Colon, Semi, LeftShiftEqual, LeftShift, LessEqual, Less, RightShiftEqual, RightShift, GreaterEqual, Greater,
    Comma, Ellipsis, Dot,
}

fn py_longest_op(c0: char, c1: Option<char>, c2: Option<char>) -> Option<(Op, u32)> {
    let e1 = c1 == Some('=');
    let e2 = c2 == Some('=');
    Some(match c0 {
        '=' => if e1 { (Op::EqEqual, 2) } else { (Op::Equal, 1) },
        '+' => if e1 { (Op::PlusEqual, 2) } else { (Op::Plus, 1) },
        '*' => if c1 == Some('*') { if e2 { (Op::DoubleStarEqual, 3) } else { (Op::DoubleStar, 2) } } else if e1 { (Op::StarEqual, 2) } else { (Op::Star, 1) },
        '/' => if c1 == Some('/') { if e2 { (Op::DoubleSlashEqual, 3) } else { (Op::DoubleSlash, 2) } } else if e1 { (Op::SlashEqual, 2) } else { (Op::Slash, 1) },
        '%' => if e1 { (Op::PercentEqual, 2) } else { (Op::Percent, 1) },
        '|' => if e1 { (Op::VbarEqual, 2) } else { (Op::Vbar, 1) },
        '^' => if e1 { (Op::CircumflexEqual, 2) } else { (Op::CircumFlex, 1) },
        '&' => if e1 { (Op::AmperEqual, 2) } else { (Op::Amper, 1) },
        '-' => if e1 { (Op::MinusEqual, 2) } else if c1 == Some('>') { (Op::Rarrow, 2) } else { (Op::Minus, 1) },
        '@' => if e1 { (Op::AtEqual, 2) } else { (Op::At, 1) },
        '!' => if e1 { (Op::NotEqual, 2) } else { return None },
        '~' => (Op::Tilde, 1),
        '(' => (Op::Lpar, 1),
        ')' => (Op::Rpar, 1),
        '[' => (Op::Lsqb, 1),
        ']' => (Op::Rsqb, 1),
        '{' => (Op::Lbrace, 1),
        '}' => (Op::Rbrace, 1),
        ':' => if e1 { (Op::ColonEqual, 2) } else { (Op::Colon, 1) },
        ';' => (Op::Semi, 1),
        '<' => if c1 == Some('<') { if e2 { (Op::LeftShiftEqual, 3) } else { (Op::LeftShift, 2) } } else if e1 { (Op::LessEqual, 2) } else { (Op::Less, 1) },
        '>' => if c1 == Some('>') { if e2 { (Op::RightShiftEqual, 3) } else { (Op::RightShift, 2) } } else if e1 { (Op::GreaterEqual, 2) } else { (Op::Greater, 1) },
        ',' => (Op::Comma, 1),
        '.' => if c1 == Some('.') && c2 == Some('.') { (Op::Ellipsis, 3) } else { (Op::Dot, 1) },
        _ => return None,
    })
}

fn tok_is(t: &Tok, op: Op) -> bool {
    match op {
        Op::EqEqual => matches!(t, Tok::EqEqual), Op::Equal => matches!(t, Tok::Equal),
        Op::PlusEqual => matches!(t, Tok::PlusEqual), Op::Plus => matches!(t, Tok::Plus),
        Op::StarEqual => matches!(t, Tok::StarEqual), Op::DoubleStarEqual => matches!(t, Tok::DoubleStarEqual),
        Op::DoubleStar => matches!(t, Tok::DoubleStar), Op::Star => matches!(t, Tok::Star),
        Op::SlashEqual => matches!(t, Tok::SlashEqual), Op::DoubleSlashEqual => matches!(t, Tok::DoubleSlashEqual),
        Op::DoubleSlash => matches!(t, Tok::DoubleSlash), Op::Slash => matches!(t, Tok::Slash),
        Op::PercentEqual => matches!(t, Tok::PercentEqual), Op::Percent => matches!(t, Tok::Percent),
        Op::VbarEqual => matches!(t, Tok::VbarEqual), Op::Vbar => matches!(t, Tok::Vbar),
        Op::CircumflexEqual => matches!(t, Tok::CircumflexEqual), Op::CircumFlex => matches!(t, Tok::CircumFlex),
        Op::AmperEqual => matches!(t, Tok::AmperEqual), Op::Amper => matches!(t, Tok::Amper),
        Op::MinusEqual => matches!(t, Tok::MinusEqual), Op::Rarrow => matches!(t, Tok::Rarrow),
        Op::Minus => matches!(t, Tok::Minus), Op::AtEqual => matches!(t, Tok::AtEqual), Op::At => matches!(t, Tok::At),
        Op::NotEqual => matches!(t, Tok::NotEqual), Op::Tilde => matches!(t, Tok::Tilde),
        Op::Lpar => matches!(t, Tok::Lpar), Op::Rpar => matches!(t, Tok::Rpar), Op::Lsqb => matches!(t, Tok::Lsqb),
        Op::Rsqb => matches!(t, Tok::Rsqb), Op::Lbrace => matches!(t, Tok::Lbrace), Op::Rbrace => matches!(t, Tok::Rbrace),
        Op::ColonEqual => matches!(t, Tok::ColonEqual), Op::Colon => matches!(t, Tok::Colon), Op::Semi => matches!(t, Tok::Semi),
        Op::LeftShiftEqual => matches!(t, Tok::LeftShiftEqual), Op::LeftShift => matches!(t, Tok::LeftShift),
        Op::LessEqual => matches!(t, Tok::LessEqual), Op::Less => matches!(t, Tok::Less),
        Op::RightShiftEqual => matches!(t, Tok::RightShiftEqual), Op::RightShift => matches!(t, Tok::RightShift),
        Op::GreaterEqual => matches!(t, Tok::GreaterEqual), Op::Greater => matches!(t, Tok::Greater),
        Op::Comma => matches!(t, Tok::Comma), Op::Ellipsis => matches!(t, Tok::Ellipsis), Op::Dot => matches!(t, Tok::Dot),
    }
}

/// Contract of one operator/delimiter step, checked for a CONCRETE first character `c0` (so that
/// CBMC resolves consume_character's dispatch) and a fully symbolic rest of the stream.
fn operator_step_for(c0: char) {
    let (mut w, s) = any_stream();
    w[0] = Some(c0);
    let start: u32 = kani::any();
    kani::assume(start <= MAX_START);
    let nesting: usize = kani::any();
    kani::assume(nesting < usize::MAX);
    let bol: bool = kani::any();
    let spec = py_longest_op(c0, w[1], w[2]);
    // '.' followed by a digit is a number and '!' alone is an error (own obligations)
    kani::assume(spec.is_some());
    kani::assume(!(c0 == '.' && matches!(w[1], Some('0'..='9'))));
    let (op, len) = spec.unwrap();
    let mut lxr = ManuallyDrop::new(lexer_at(w, s, start, nesting, bol));
    let r = ManuallyDrop::new(lxr.consume_character(c0));
    let closing = matches!(op, Op::Rpar | Op::Rsqb | Op::Rbrace);
    let opening = matches!(op, Op::Lpar | Op::Lsqb | Op::Lbrace);
    // the token is emitted in every case (also before a NestingError is reported)
    assert!(lxr.pending.len() == 1);
    let (tok, range) = &lxr.pending[0];
    assert!(tok_is(tok, op));
    assert!(range.start().to_u32() == start);
    assert!(range.end().to_u32() == start + len);
    assert!(lxr.location.to_u32() == start + len);
    assert!(lxr.at_begin_of_line == bol);
    match &*r {
        Ok(()) => {
            assert!(!(closing && nesting == 0));
            if opening {
                assert!(lxr.nesting == nesting + 1);
            } else if closing {
                assert!(lxr.nesting == nesting - 1);
            } else {
                assert!(lxr.nesting == nesting);
            }
        }
        Err(e) => {
            assert!(closing && nesting == 0);
            assert!(matches!(e.error, LexicalErrorType::NestingError));
            assert!(e.location.to_u32() == start + 1);
        }
    }
    kani::cover!(len == 1 || c0 == '!');
    kani::cover!(len >= 2 || py_longest_op(c0, Some('='), Some('=')).map(|x| x.1) == Some(1));
}

macro_rules! op_step {
    ($name:ident, $c:expr) => {
        #[kani::proof]
        #[kani::unwind(6)]
        #[kani::stub(Lexer::lex_number, lex_number_unreachable)]
        #[kani::stub(Lexer::lex_string, lex_string_unreachable)]
        fn $name() {
            // the number and string scanners are replaced by functions that fail when reached:
            // an operator character is never routed to them
            operator_step_for($c);
        }
    };
}

// @ob id=C05.k.op_lpar props=C05,C03,C04 kind=complete tier=quick
// @clause one emit per operator/delimiter lexeme starting with '(' (forms: (): for every continuation of the stream exactly one token is pushed, it is the LONGEST Python operator spelled by the window prefix, its range is [pos, pos+len) so the text under the token spells it, the position ends at pos+len ; bracket depth +1/-1, and a closing bracket at depth 0 is a NestingError located just after it
// @fns Lexer::consume_character Lexer::eat_single_char Lexer::emit Lexer::get_pos Lexer::next_char
op_step!(c05_op_lpar, '(');

// @ob id=C05.k.op_rpar props=C05,C03,C04 kind=complete tier=quick
// @clause one emit per operator/delimiter lexeme starting with ')' (forms: )): for every continuation of the stream exactly one token is pushed, it is the LONGEST Python operator spelled by the window prefix, its range is [pos, pos+len) so the text under the token spells it, the position ends at pos+len ; bracket depth +1/-1, and a closing bracket at depth 0 is a NestingError located just after it
// @fns Lexer::consume_character Lexer::eat_single_char Lexer::emit Lexer::get_pos Lexer::next_char
op_step!(c05_op_rpar, ')');

// @ob id=C05.k.op_lsqb props=C05,C03,C04 kind=complete tier=quick
// @clause one emit per operator/delimiter lexeme starting with '[' (forms: [): for every continuation of the stream exactly one token is pushed, it is the LONGEST Python operator spelled by the window prefix, its range is [pos, pos+len) so the text under the token spells it, the position ends at pos+len ; bracket depth +1/-1, and a closing bracket at depth 0 is a NestingError located just after it
// @fns Lexer::consume_character Lexer::eat_single_char Lexer::emit Lexer::get_pos Lexer::next_char
op_step!(c05_op_lsqb, '[');

// @ob id=C05.k.op_rsqb props=C05,C03,C04 kind=complete tier=quick
// @clause one emit per operator/delimiter lexeme starting with ']' (forms: ]): for every continuation of the stream exactly one token is pushed, it is the LONGEST Python operator spelled by the window prefix, its range is [pos, pos+len) so the text under the token spells it, the position ends at pos+len ; bracket depth +1/-1, and a closing bracket at depth 0 is a NestingError located just after it
// @fns Lexer::consume_character Lexer::eat_single_char Lexer::emit Lexer::get_pos Lexer::next_char
op_step!(c05_op_rsqb, ']');

// @ob id=C05.k.op_lbrace props=C05,C03,C04 kind=complete tier=quick
// @clause one emit per operator/delimiter lexeme starting with '{' (forms: {): for every continuation of the stream exactly one token is pushed, it is the LONGEST Python operator spelled by the window prefix, its range is [pos, pos+len) so the text under the token spells it, the position ends at pos+len ; bracket depth +1/-1, and a closing bracket at depth 0 is a NestingError located just after it
// @fns Lexer::consume_character Lexer::eat_single_char Lexer::emit Lexer::get_pos Lexer::next_char
op_step!(c05_op_lbrace, '{');

// @ob id=C05.k.op_rbrace props=C05,C03,C04 kind=complete tier=quick
// @clause one emit per operator/delimiter lexeme starting with '}' (forms: }): for every continuation of the stream exactly one token is pushed, it is the LONGEST Python operator spelled by the window prefix, its range is [pos, pos+len) so the text under the token spells it, the position ends at pos+len ; bracket depth +1/-1, and a closing bracket at depth 0 is a NestingError located just after it
// @fns Lexer::consume_character Lexer::eat_single_char Lexer::emit Lexer::get_pos Lexer::next_char
op_step!(c05_op_rbrace, '}');

// @ob id=C05.k.op_equal props=C05,C03 kind=complete tier=quick
// @clause one emit per operator/delimiter lexeme starting with '=' (forms: = ==): for every continuation of the stream exactly one token is pushed, it is the LONGEST Python operator spelled by the window prefix, its range is [pos, pos+len) so the text under the token spells it, the position ends at pos+len
// @fns Lexer::consume_character Lexer::eat_single_char Lexer::emit Lexer::get_pos Lexer::next_char
op_step!(c05_op_equal, '=');

// @ob id=C05.k.op_plus props=C05,C03 kind=complete tier=quick
// @clause one emit per operator/delimiter lexeme starting with '+' (forms: + +=): for every continuation of the stream exactly one token is pushed, it is the LONGEST Python operator spelled by the window prefix, its range is [pos, pos+len) so the text under the token spells it, the position ends at pos+len
// @fns Lexer::consume_character Lexer::eat_single_char Lexer::emit Lexer::get_pos Lexer::next_char
op_step!(c05_op_plus, '+');

// @ob id=C05.k.op_percent props=C05,C03 kind=complete tier=quick
// @clause one emit per operator/delimiter lexeme starting with '%' (forms: % %=): for every continuation of the stream exactly one token is pushed, it is the LONGEST Python operator spelled by the window prefix, its range is [pos, pos+len) so the text under the token spells it, the position ends at pos+len
// @fns Lexer::consume_character Lexer::eat_single_char Lexer::emit Lexer::get_pos Lexer::next_char
op_step!(c05_op_percent, '%');

// @ob id=C05.k.op_vbar props=C05,C03 kind=complete tier=quick
// @clause one emit per operator/delimiter lexeme starting with '|' (forms: | |=): for every continuation of the stream exactly one token is pushed, it is the LONGEST Python operator spelled by the window prefix, its range is [pos, pos+len) so the text under the token spells it, the position ends at pos+len
// @fns Lexer::consume_character Lexer::eat_single_char Lexer::emit Lexer::get_pos Lexer::next_char
op_step!(c05_op_vbar, '|');

// @ob id=C05.k.op_circumflex props=C05,C03 kind=complete tier=quick
// @clause one emit per operator/delimiter lexeme starting with '^' (forms: ^ ^=): for every continuation of the stream exactly one token is pushed, it is the LONGEST Python operator spelled by the window prefix, its range is [pos, pos+len) so the text under the token spells it, the position ends at pos+len
// @fns Lexer::consume_character Lexer::eat_single_char Lexer::emit Lexer::get_pos Lexer::next_char
op_step!(c05_op_circumflex, '^');

// @ob id=C05.k.op_amper props=C05,C03 kind=complete tier=quick
// @clause one emit per operator/delimiter lexeme starting with '&' (forms: & &=): for every continuation of the stream exactly one token is pushed, it is the LONGEST Python operator spelled by the window prefix, its range is [pos, pos+len) so the text under the token spells it, the position ends at pos+len
// @fns Lexer::consume_character Lexer::eat_single_char Lexer::emit Lexer::get_pos Lexer::next_char
op_step!(c05_op_amper, '&');

// @ob id=C05.k.op_at props=C05,C03 kind=complete tier=quick
// @clause one emit per operator/delimiter lexeme starting with '@' (forms: @ @=): for every continuation of the stream exactly one token is pushed, it is the LONGEST Python operator spelled by the window prefix, its range is [pos, pos+len) so the text under the token spells it, the position ends at pos+len
// @fns Lexer::consume_character Lexer::eat_single_char Lexer::emit Lexer::get_pos Lexer::next_char
op_step!(c05_op_at, '@');

// @ob id=C05.k.op_colon props=C05,C03 kind=complete tier=quick
// @clause one emit per operator/delimiter lexeme starting with ':' (forms: : :=): for every continuation of the stream exactly one token is pushed, it is the LONGEST Python operator spelled by the window prefix, its range is [pos, pos+len) so the text under the token spells it, the position ends at pos+len
// @fns Lexer::consume_character Lexer::eat_single_char Lexer::emit Lexer::get_pos Lexer::next_char
op_step!(c05_op_colon, ':');

// @ob id=C05.k.op_bang props=C05,C03 kind=complete tier=quick
// @clause one emit per operator/delimiter lexeme starting with '!' (forms: !=): for every continuation of the stream exactly one token is pushed, it is the LONGEST Python operator spelled by the window prefix, its range is [pos, pos+len) so the text under the token spells it, the position ends at pos+len
// @fns Lexer::consume_character Lexer::eat_single_char Lexer::emit Lexer::get_pos Lexer::next_char
op_step!(c05_op_bang, '!');

// @ob id=C05.k.op_tilde props=C05,C03 kind=complete tier=quick
// @clause one emit per operator/delimiter lexeme starting with '~' (forms: ~): for every continuation of the stream exactly one token is pushed, it is the LONGEST Python operator spelled by the window prefix, its range is [pos, pos+len) so the text under the token spells it, the position ends at pos+len
// @fns Lexer::consume_character Lexer::eat_single_char Lexer::emit Lexer::get_pos Lexer::next_char
op_step!(c05_op_tilde, '~');

// @ob id=C05.k.op_semi props=C05,C03 kind=complete tier=quick
// @clause one emit per operator/delimiter lexeme starting with ';' (forms: ;): for every continuation of the stream exactly one token is pushed, it is the LONGEST Python operator spelled by the window prefix, its range is [pos, pos+len) so the text under the token spells it, the position ends at pos+len
// @fns Lexer::consume_character Lexer::eat_single_char Lexer::emit Lexer::get_pos Lexer::next_char
op_step!(c05_op_semi, ';');

// @ob id=C05.k.op_comma props=C05,C03 kind=complete tier=quick
// @clause one emit per operator/delimiter lexeme starting with ',' (forms: ,): for every continuation of the stream exactly one token is pushed, it is the LONGEST Python operator spelled by the window prefix, its range is [pos, pos+len) so the text under the token spells it, the position ends at pos+len
// @fns Lexer::consume_character Lexer::eat_single_char Lexer::emit Lexer::get_pos Lexer::next_char
op_step!(c05_op_comma, ',');

// @ob id=C05.k.op_star props=C05,C03 kind=complete tier=quick
// @clause one emit per operator/delimiter lexeme starting with '*' (forms: * ** **= *=): for every continuation of the stream exactly one token is pushed, it is the LONGEST Python operator spelled by the window prefix, its range is [pos, pos+len) so the text under the token spells it, the position ends at pos+len
// @fns Lexer::consume_character Lexer::eat_single_char Lexer::emit Lexer::get_pos Lexer::next_char
op_step!(c05_op_star, '*');

// @ob id=C05.k.op_slash props=C05,C03 kind=complete tier=quick
// @clause one emit per operator/delimiter lexeme starting with '/' (forms: / // //= /=): for every continuation of the stream exactly one token is pushed, it is the LONGEST Python operator spelled by the window prefix, its range is [pos, pos+len) so the text under the token spells it, the position ends at pos+len
// @fns Lexer::consume_character Lexer::eat_single_char Lexer::emit Lexer::get_pos Lexer::next_char
op_step!(c05_op_slash, '/');

// @ob id=C05.k.op_less props=C05,C03 kind=complete tier=quick
// @clause one emit per operator/delimiter lexeme starting with '<' (forms: < << <<= <=): for every continuation of the stream exactly one token is pushed, it is the LONGEST Python operator spelled by the window prefix, its range is [pos, pos+len) so the text under the token spells it, the position ends at pos+len
// @fns Lexer::consume_character Lexer::eat_single_char Lexer::emit Lexer::get_pos Lexer::next_char
op_step!(c05_op_less, '<');

// @ob id=C05.k.op_greater props=C05,C03 kind=complete tier=quick
// @clause one emit per operator/delimiter lexeme starting with '>' (forms: > >> >>= >=): for every continuation of the stream exactly one token is pushed, it is the LONGEST Python operator spelled by the window prefix, its range is [pos, pos+len) so the text under the token spells it, the position ends at pos+len
// @fns Lexer::consume_character Lexer::eat_single_char Lexer::emit Lexer::get_pos Lexer::next_char
op_step!(c05_op_greater, '>');

// @ob id=C05.k.op_minus props=C05,C03 kind=complete tier=quick
// @clause one emit per operator/delimiter lexeme starting with '-' (forms: - -= ->): for every continuation of the stream exactly one token is pushed, it is the LONGEST Python operator spelled by the window prefix, its range is [pos, pos+len) so the text under the token spells it, the position ends at pos+len
// @fns Lexer::consume_character Lexer::eat_single_char Lexer::emit Lexer::get_pos Lexer::next_char
op_step!(c05_op_minus, '-');

// @ob id=C05.k.op_dot props=C05,C03 kind=complete tier=quick
// @clause one emit per operator/delimiter lexeme starting with '.' (forms: . ...): for every continuation of the stream exactly one token is pushed, it is the LONGEST Python operator spelled by the window prefix, its range is [pos, pos+len) so the text under the token spells it, the position ends at pos+len
// @fns Lexer::consume_character Lexer::eat_single_char Lexer::emit Lexer::get_pos Lexer::next_char
#[kani::proof]
#[kani::unwind(6)]
#[kani::stub(Lexer::lex_number, lex_number_unreachable)]
fn c05_op_dot() {
    // '.' followed by a digit starts a number (own obligation C05.k.dot_digit_is_number); here the
    // number scanner is replaced by a function that fails when reached: the dispatch never calls it
    operator_step_for('.');
}

/// Stand-in that turns "this callee is not reached" into a checked obligation.
fn lex_number_unreachable<T: Iterator<Item = char>>(_l: &mut Lexer<T>) -> LexResult {
    panic!("lex_number reached")
}

fn lex_string_unreachable<T: Iterator<Item = char>>(_l: &mut Lexer<T>, _k: StringKind) -> LexResult {
    panic!("lex_string reached")
}
fn lex_comment_unreachable<T: Iterator<Item = char>>(_l: &mut Lexer<T>) -> Result<(), LexicalError> {
    panic!("lex_and_emit_comment reached")
}

static mut LEX_NUMBER_CALLS: u32 = 0;
fn lex_number_recorder<T: Iterator<Item = char>>(l: &mut Lexer<T>) -> LexResult {
    unsafe {
        LEX_NUMBER_CALLS += 1;
    }
    let p = l.get_pos();
    Ok((Tok::Dot, TextRange::empty(p)))
}

// @ob id=C05.k.dot_digit_is_number props=C05,C06 kind=complete tier=quick
// @clause a '.' directly followed by a digit is handed to the number scanner (so .5 is a float, not Dot then Int), exactly once, without consuming anything first, and whatever it returns is emitted
// @fns Lexer::consume_character
#[kani::proof]
#[kani::unwind(6)]
#[kani::stub(Lexer::lex_number, lex_number_recorder)]
fn c05_dot_digit_is_number() {
    let (mut w, s) = any_stream();
    w[0] = Some('.');
    kani::assume(matches!(w[1], Some('0'..='9')));
    let start: u32 = kani::any();
    kani::assume(start <= MAX_START);
    let mut lxr = ManuallyDrop::new(lexer_at(w, s, start, kani::any(), kani::any()));
    let r = ManuallyDrop::new(lxr.consume_character('.'));
    assert!(r.is_ok());
    assert!(unsafe { LEX_NUMBER_CALLS } == 1);
    assert!(lxr.pending.len() == 1);
    assert!(lxr.location.to_u32() == start);
}

// @ob id=C04.k.bang_alone props=C04,C05,C03 kind=complete tier=quick
// @clause a character that cannot begin a token: '!' not followed by '=' is UnrecognizedToken('!') located at the '!'; nothing is emitted
// @fns Lexer::consume_character
#[kani::proof]
#[kani::unwind(6)]
#[kani::stub(Lexer::lex_number, lex_number_unreachable)]
#[kani::stub(Lexer::lex_string, lex_string_unreachable)]
#[kani::stub(Lexer::lex_and_emit_comment, lex_comment_unreachable)]
fn c04_bang_alone() {
    let (w, s) = any_stream();
    let start: u32 = kani::any();
    kani::assume(start <= MAX_START);
    kani::assume(w[0] == Some('!') && w[1] != Some('='));
    let mut lxr = ManuallyDrop::new(lexer_at(w, s, start, kani::any(), kani::any()));
    let r = ManuallyDrop::new(lxr.consume_character('!'));
    match &*r {
        Ok(()) => assert!(false),
        Err(e) => {
            assert!(matches!(e.error, LexicalErrorType::UnrecognizedToken { tok: '!' }));
            assert!(e.location.to_u32() == start);
        }
    }
    assert!(lxr.pending.is_empty());
}

// @ob id=C05.k.newline_step props=C05,C03 kind=complete tier=quick
// @clause NEWLINE is produced only outside brackets: on LF / CR / CR LF the step consumes exactly that line break; at depth 0 it emits Newline with the break's exact range and marks the start of a logical line; inside brackets it emits no Newline (a NonLogicalNewline with the same range under full-lexer) and leaves the line-start flag alone
// @fns Lexer::consume_character Lexer::next_char
#[kani::proof]
#[kani::unwind(6)]
#[kani::stub(Lexer::lex_number, lex_number_unreachable)]
#[kani::stub(Lexer::lex_string, lex_string_unreachable)]
#[kani::stub(Lexer::lex_and_emit_comment, lex_comment_unreachable)]
fn c05_newline_step() {
    let (w, s) = any_stream();
    let start: u32 = kani::any();
    kani::assume(start <= MAX_START);
    let nesting: usize = kani::any();
    let bol: bool = kani::any();
    let c0 = match w[0] {
        Some(c) => c,
        None => return,
    };
    kani::assume(c0 == '\n' || c0 == '\r');
    let len = head_len(c0, w[1]);
    let mut lxr = ManuallyDrop::new(lexer_at(w, s, start, nesting, bol));
    // concrete argument so that CBMC resolves the dispatch
    let r = ManuallyDrop::new(if c0 == '\n' { lxr.consume_character('\n') } else { lxr.consume_character('\r') });
    assert!(r.is_ok());
    assert!(lxr.location.to_u32() == start + len);
    assert!(lxr.nesting == nesting);
    if nesting == 0 {
        assert!(lxr.pending.len() == 1);
        let (tok, range) = &lxr.pending[0];
        assert!(matches!(tok, Tok::Newline));
        assert!(range.start().to_u32() == start && range.end().to_u32() == start + len);
        assert!(lxr.at_begin_of_line);
    } else {
        assert!(lxr.at_begin_of_line == bol);
        #[cfg(not(feature = "full-lexer"))]
        assert!(lxr.pending.is_empty());
        #[cfg(feature = "full-lexer")]
        {
            assert!(lxr.pending.len() == 1);
            let (tok, range) = &lxr.pending[0];
            assert!(matches!(tok, Tok::NonLogicalNewline));
            assert!(range.start().to_u32() == start && range.end().to_u32() == start + len);
        }
    }
    kani::cover!(len == 2);
    kani::cover!(nesting > 0);
}

// @ob id=C04.k.line_continuation props=C04,C05,C03 kind=complete tier=quick
// @clause anything but a line break after a line-continuation backslash is rejected: after '\\' a LF/CR/CRLF is consumed silently (no token), any other character (or end of input) is LineContinuationError located just after the backslash, and a join that ends the input is Eof located at the end
// @fns Lexer::consume_character
#[kani::proof]
#[kani::unwind(6)]
#[kani::stub(Lexer::lex_number, lex_number_unreachable)]
#[kani::stub(Lexer::lex_string, lex_string_unreachable)]
#[kani::stub(Lexer::lex_and_emit_comment, lex_comment_unreachable)]
fn c04_line_continuation() {
    let (w, s) = any_stream();
    let start: u32 = kani::any();
    kani::assume(start <= MAX_START);
    kani::assume(w[0] == Some('\\'));
    let nesting: usize = kani::any();
    let mut lxr = ManuallyDrop::new(lexer_at(w, s, start, nesting, kani::any()));
    let r = ManuallyDrop::new(lxr.consume_character('\\'));
    assert!(lxr.pending.is_empty());
    assert!(lxr.nesting == nesting);
    let is_break = matches!(w[1], Some('\n') | Some('\r'));
    match &*r {
        Ok(()) => {
            assert!(is_break);
            let l = head_len(w[1].unwrap(), w[2]);
            assert!(lxr.location.to_u32() == start + 1 + l);
            assert!(lxr.window[0].is_some());
        }
        Err(e) => {
            if !is_break {
                assert!(matches!(e.error, LexicalErrorType::LineContinuationError));
                assert!(e.location.to_u32() == start + 1);
            } else {
                let l = head_len(w[1].unwrap(), w[2]);
                assert!(matches!(e.error, LexicalErrorType::Eof));
                assert!(e.location.to_u32() == start + 1 + l);
                assert!(lxr.window[0].is_none());
            }
        }
    }
    kani::cover!(r.is_ok());
    kani::cover!(is_break && r.is_err());
    kani::cover!(!is_break && w[1].is_none());
}

static mut EMOJI: bool = false;
fn is_emoji_stub(_c: char) -> bool {
    unsafe { EMOJI }
}

// @ob id=C04.k.unrecognized_char props=C04,C05,C03 kind=complete tier=quick 
// @clause a character that cannot begin any token is rejected: every character outside the dispatch table and not emoji-presentation (classification abstracted by an arbitrary predicate) yields UnrecognizedToken carrying that character, located just after it, with nothing emitted
// @fns Lexer::consume_character
#[kani::proof]
#[kani::unwind(6)]
#[kani::stub(unic_emoji_char::is_emoji_presentation, is_emoji_stub)]
#[kani::stub(Lexer::lex_number, lex_number_unreachable)]
#[kani::stub(Lexer::lex_string, lex_string_unreachable)]
#[kani::stub(Lexer::lex_and_emit_comment, lex_comment_unreachable)]
fn c04_unrecognized_char() {
    let (w, s) = any_stream();
    let start: u32 = kani::any();
    kani::assume(start <= MAX_START);
    let c0 = match w[0] {
        Some(c) => c,
        None => return,
    };
    // outside the dispatch table of consume_character
    kani::assume(py_longest_op(c0, Some('='), None).is_none());
    kani::assume(!matches!(c0, '0'..='9' | '#' | '"' | '\'' | '\n' | '\r' | ' ' | '\t' | '\x0C' | '\\'));
    unsafe {
        EMOJI = false;
    }
    let mut lxr = ManuallyDrop::new(lexer_at(w, s, start, kani::any(), kani::any()));
    let r = ManuallyDrop::new(lxr.consume_character(c0));
    match &*r {
        Ok(()) => assert!(false),
        Err(e) => {
            match e.error {
                LexicalErrorType::UnrecognizedToken { tok } => assert!(tok == c0),
                _ => assert!(false),
            }
            assert!(e.location.to_u32() == start + c0.len_utf8() as u32);
        }
    }
    assert!(lxr.pending.is_empty());
    kani::cover!(c0.len_utf8() == 4);
    kani::cover!(c0 == '$');
}

// @ob id=C04.k.compare_strict props=C04,C03 kind=complete tier=quick
// @clause tab/space ambiguity: comparing two indentation levels is a TabError at the given position exactly when tabs and spaces differ in opposite directions; otherwise the order is decided by tabs, then spaces
// @fns IndentationLevel::compare_strict
#[kani::proof]
#[kani::unwind(4)]
fn c04_compare_strict() {
    let a = IndentationLevel { tabs: kani::any(), spaces: kani::any() };
    let b = IndentationLevel { tabs: kani::any(), spaces: kani::any() };
    let loc = TextSize::new(kani::any());
    let r = ManuallyDrop::new(a.compare_strict(&b, loc));
    let ambiguous = (a.tabs < b.tabs && a.spaces > b.spaces) || (a.tabs > b.tabs && a.spaces < b.spaces);
    match &*r {
        Err(e) => {
            assert!(ambiguous);
            assert!(matches!(e.error, LexicalErrorType::TabError));
            assert!(e.location == loc);
        }
        Ok(o) => {
            assert!(!ambiguous);
            let expect = if a.tabs == b.tabs { a.spaces.cmp(&b.spaces) } else { a.tabs.cmp(&b.tabs) };
            assert!(*o == expect);
        }
    }
    kani::cover!(ambiguous);
    kani::cover!(matches!(&*r, Ok(Ordering::Equal)));
}

// @ob id=C06.k.digit_of_radix props=C06,C03 kind=complete tier=quick
// @clause digit classes of integer literals: for radix 2, 8, 10, 16 a character is a digit exactly when Python's grammar says so (bindigit, octdigit, digit, hexdigit in either case); end of input is never a digit
// @fns Lexer::is_digit_of_radix
#[kani::proof]
fn c06_digit_of_radix() {
    let c: Option<char> = kani::any();
    let radix: u32 = kani::any();
    kani::assume(radix == 2 || radix == 8 || radix == 10 || radix == 16);
    let r = Lexer::<Src>::is_digit_of_radix(c, radix);
    let expect = match c {
        None => false,
        Some(ch) => {
            let v = ch as u32;
            let val = if v >= '0' as u32 && v <= '9' as u32 {
                Some(v - '0' as u32)
            } else if v >= 'a' as u32 && v <= 'f' as u32 {
                Some(v - 'a' as u32 + 10)
            } else if v >= 'A' as u32 && v <= 'F' as u32 {
                Some(v - 'A' as u32 + 10)
            } else {
                None
            };
            match val {
                Some(d) => d < radix,
                None => false,
            }
        }
    };
    assert!(r == expect);
    kani::cover!(r && radix == 16);
    kani::cover!(!r && c.is_some());
}

// @ob id=C06.k.number_dispatch props=C06,C03 kind=complete tier=quick
// @clause base prefixes: after 0x/0X, 0o/0O, 0b/0B the digit run uses radix 16, 8, 2 - the only radixes is_digit_of_radix is ever asked for besides 10 (so its unimplemented!() arm is unreachable from the lexer)
// @fns Lexer::at_exponent
#[kani::proof]
#[kani::unwind(6)]
fn c06_at_exponent() {
    let (w, s) = any_stream();
    let lxr = ManuallyDrop::new(lexer_at(w, s, 0, 0, false));
    let r = lxr.at_exponent();
    let is_e = matches!(w[0], Some('e') | Some('E'));
    let d = |c: Option<char>| matches!(c, Some('0'..='9'));
    let expect = is_e && (d(w[1]) || (matches!(w[1], Some('+') | Some('-')) && d(w[2])));
    assert!(r == expect);
    kani::cover!(r);
}

// @ob id=C05.k.canary props=C05,C03,C04,C06 kind=canary
// @clause vacuity guard: a false claim about next_char must be refuted
// @fns Lexer::next_char
#[kani::proof]
#[kani::unwind(6)]
fn c05_canary() {
    let (w, s) = any_stream();
    let mut lxr = ManuallyDrop::new(lexer_at(w, s, 0, 0, false));
    let _ = lxr.next_char();
    assert!(lxr.location.to_u32() != 2);
}

// ---------------------------------------------------------------------------------------------
// Indentation handling and end-of-input flush (bounded stand-ins: loops over the text).

/// One of the characters that matter at the start of a line.
fn any_indent_char() -> Option<char> {
    let k: u8 = kani::any();
    kani::assume(k < 8);
    match k {
        0 => Some(' '),
        1 => Some('\t'),
        2 => Some('#'),
        3 => Some('\x0C'),
        4 => Some('\n'),
        5 => Some('\r'),
        6 => Some('a'),
        _ => None,
    }
}

fn indent_stream() -> [Option<char>; 5] {
    let s = [any_indent_char(), any_indent_char(), any_indent_char(), any_indent_char(), any_indent_char()];
    kani::assume(s[0].is_some() || s[1].is_none());
    kani::assume(s[1].is_some() || s[2].is_none());
    kani::assume(s[2].is_some() || s[3].is_none());
    kani::assume(s[3].is_some() || s[4].is_none());
    s
}

/// Reference scan of the indentation of one logical line start over the 5-character stream,
/// written from the lexer's documented rules: returns (Ok(level) | Err(position of offending tab),
/// characters consumed, saw a non-blank character).
fn ref_eat_indentation(s: &[Option<char>; 5]) -> (Result<(u32, u32), usize>, usize, bool) {
    let mut spaces = 0u32;
    let mut tabs = 0u32;
    let mut i = 0usize; // index of the next unread character
    let mut in_comment = false;
    let mut code = false;
    let mut done = false;
    let mut err: Option<usize> = None;
    for _ in 0..6 {
        if !done {
            let c = if i < 5 { s[i] } else { None };
            if in_comment {
                match c {
                    Some('\n') | Some('\r') | None => {
                        in_comment = false;
                        spaces = 0;
                        tabs = 0;
                    }
                    Some(_) => i += 1,
                }
            } else {
                match c {
                    Some(' ') => {
                        i += 1;
                        spaces += 1;
                    }
                    Some('\t') => {
                        if spaces != 0 {
                            err = Some(i);
                            done = true;
                        } else {
                            i += 1;
                            tabs += 1;
                        }
                    }
                    Some('#') => in_comment = true,
                    Some('\x0C') => {
                        i += 1;
                        spaces = 0;
                        tabs = 0;
                    }
                    Some('\n') | Some('\r') => {
                        // CR LF is one line break
                        if c == Some('\r') && i + 1 < 5 && s[i + 1] == Some('\n') {
                            i += 2;
                        } else {
                            i += 1;
                        }
                        spaces = 0;
                        tabs = 0;
                    }
                    None => {
                        spaces = 0;
                        tabs = 0;
                        done = true;
                    }
                    Some(_) => {
                        code = true;
                        done = true;
                    }
                }
            }
        }
    }
    kani::assume(done && !in_comment); // the bounded stream was long enough to finish the scan
    match err {
        Some(p) => (Err(p), i, code),
        None => (Ok((tabs, spaces)), i, code),
    }
}

fn lexer_on(s: [Option<char>; 5], start: u32, nesting: usize) -> Lexer<Src> {
    Lexer {
        at_begin_of_line: true,
        nesting,
        indentations: Indentations::default(),
        pending: Vec::with_capacity(5),
        location: TextSize::new(start),
        window: CharWindow { source: Src { items: [s[3], s[4], None, None], i: 0 }, window: [s[0], s[1], s[2]] },
    }
}

// @ob id=C04.k.eat_indentation props=C04,C05,C03 kind=bounded tier=thorough timeout=900
// @bound logical-line starts of at most 5 characters over the alphabet space, tab, '#', form feed, LF, CR, 'a' (and end of input)
// @clause indentation counting: spaces and tabs before the first non-blank character are counted; blank lines, comment-only lines and form feeds reset the count; a tab after a counted space is TabsAfterSpaces at the tab; the position advances by exactly the characters consumed (single-byte here, CR LF two) and the line-start flag is cleared exactly when code follows
// @fns Lexer::eat_indentation Lexer::lex_comment
#[kani::proof]
#[kani::unwind(8)]
fn c04_eat_indentation() {
    let s = indent_stream();
    let start: u32 = kani::any();
    kani::assume(start <= MAX_START);
    let (expect, consumed, code) = ref_eat_indentation(&s);
    let mut lxr = ManuallyDrop::new(lexer_on(s, start, kani::any()));
    let r = ManuallyDrop::new(lxr.eat_indentation());
    match (&*r, expect) {
        (Ok(level), Ok((tabs, spaces))) => {
            assert!(level.tabs == tabs && level.spaces == spaces);
            assert!(lxr.location.to_u32() == start + consumed as u32);
            assert!(lxr.at_begin_of_line == !code);
        }
        (Err(e), Err(p)) => {
            assert!(matches!(e.error, LexicalErrorType::TabsAfterSpaces));
            assert!(e.location.to_u32() == start + p as u32);
        }
        _ => assert!(false),
    }
    #[cfg(not(feature = "full-lexer"))]
    assert!(lxr.pending.is_empty());
    kani::cover!(r.is_err());
    kani::cover!(matches!(&*r, Ok(l) if l.tabs == 1 && l.spaces == 2));
    kani::cover!(consumed == 5 && code == false);
}

fn stack_of(n: usize, l1: IndentationLevel, l2: IndentationLevel) -> Indentations {
    let mut v = vec![IndentationLevel::default()];
    if n >= 1 {
        v.push(l1);
    }
    if n >= 2 {
        v.push(l2);
    }
    Indentations { indent_stack: v }
}

/// handle_indentations on a line "<spaces><tabs...>a": contract against the indentation-stack rule
/// of the language reference (2.1.8), for a CONCRETE stack depth `n` (1 + n entries).
fn handle_indentations_for(n: usize) -> (u8, usize) {
    // line = t tabs, then sp spaces, then 'a' (tabs first: the only order the lexer accepts)
    let t: u32 = kani::any();
    let sp: u32 = kani::any();
    kani::assume(t <= 4 && sp <= 4 && t + sp <= 4);
    let mut s: [Option<char>; 5] = [None; 5];
    for i in 0..5 {
        s[i] = if (i as u32) < t { Some('\t') } else if (i as u32) < t + sp { Some(' ') } else if (i as u32) == t + sp { Some('a') } else { None };
    }
    let l1 = IndentationLevel { tabs: kani::any(), spaces: kani::any() };
    let l2 = IndentationLevel { tabs: kani::any(), spaces: kani::any() };
    // stack entries strictly increase (invariant maintained by push: only Greater levels are pushed)
    kani::assume(l1.tabs <= 4 && l1.spaces <= 4 && l2.tabs <= 4 && l2.spaces <= 4);
    kani::assume((l1.tabs > 0 || l1.spaces > 0) && l1.tabs >= 0);
    kani::assume(l2.tabs >= l1.tabs && l2.spaces >= l1.spaces && (l2.tabs > l1.tabs || l2.spaces > l1.spaces));
    let start: u32 = kani::any();
    kani::assume(start <= MAX_START);
    let nesting: usize = kani::any();
    let mut lxr = lexer_on(s, start, nesting);
    lxr.indentations = stack_of(n, l1, l2);
    let mut lxr = ManuallyDrop::new(lxr);
    let r = ManuallyDrop::new(lxr.handle_indentations());
    let pos = start + t + sp;
    let new = IndentationLevel { tabs: t, spaces: sp };
    let stack = [IndentationLevel::default(), l1, l2];
    let depth = n + 1;
    if nesting != 0 {
        // inside brackets indentation is insignificant
        assert!(r.is_ok() && lxr.pending.is_empty() && lxr.indentations.indent_stack.len() == depth);
        return (10, 0);
    }
    // reference: compare with the top; pop while smaller
    let ambiguous = |a: IndentationLevel, b: IndentationLevel| (a.tabs < b.tabs && a.spaces > b.spaces) || (a.tabs > b.tabs && a.spaces < b.spaces);
    let less = |a: IndentationLevel, b: IndentationLevel| a.tabs < b.tabs || (a.tabs == b.tabs && a.spaces < b.spaces);
    let top = stack[depth - 1];
    if ambiguous(new, top) {
        match &*r {
            Err(e) => assert!(matches!(e.error, LexicalErrorType::TabError) && e.location.to_u32() == pos),
            Ok(()) => assert!(false),
        }
        return (3, 0);
    }
    if new == top {
        assert!(r.is_ok() && lxr.pending.is_empty() && lxr.indentations.indent_stack.len() == depth);
        (11, 0)
    } else if !less(new, top) {
        // deeper: one INDENT covering exactly the indentation characters
        assert!(r.is_ok());
        assert!(lxr.pending.len() == 1);
        let (tok, range) = &lxr.pending[0];
        assert!(matches!(tok, Tok::Indent));
        assert!(range.start().to_u32() == pos - sp - t && range.end().to_u32() == pos);
        assert!(lxr.indentations.indent_stack.len() == depth + 1);
        (12, 0)
    } else {
        // shallower: pop until a level that is not deeper than the new one
        let mut d = depth;
        let mut pops = 0;
        let mut outcome = 0; // 1 ok, 2 indentation error, 3 tab error
        for _ in 0..3 {
            if outcome == 0 {
                let cur = stack[d - 1];
                if ambiguous(new, cur) {
                    outcome = 3;
                } else if new == cur {
                    outcome = 1;
                } else if less(new, cur) {
                    d -= 1;
                    pops += 1;
                } else {
                    outcome = 2;
                }
            }
        }
        match &*r {
            Ok(()) => {
                assert!(outcome == 1);
                assert!(lxr.indentations.indent_stack.len() == d);
            }
            Err(e) => {
                assert!(e.location.to_u32() == pos);
                match e.error {
                    LexicalErrorType::IndentationError => assert!(outcome == 2),
                    LexicalErrorType::TabError => assert!(outcome == 3),
                    _ => assert!(false),
                }
            }
        }
        // one DEDENT per popped level, each empty at the first code character
        assert!(lxr.pending.len() == pops);
        for i in 0..2 {
            if i < pops {
                let (tok, range) = &lxr.pending[i];
                assert!(matches!(tok, Tok::Dedent));
                assert!(range.start().to_u32() == pos && range.end().to_u32() == pos);
            }
        }
        (outcome, pops)
    }
}

// @ob id=C04.k.handle_indentations_d0 props=C04,C05,C03 kind=bounded tier=quick timeout=900
// @bound stack of 1 level (module level only); lines with at most 4 indentation characters (tabs then spaces)
// @clause INDENT/DEDENT bookkeeping at the start of a logical line, stack depth 1: deeper than the top pushes and emits one Indent whose range is exactly the indentation characters (no underflow of pos - spaces - tabs); equal emits nothing; inside brackets nothing happens
// @fns Lexer::handle_indentations Lexer::eat_indentation IndentationLevel::compare_strict Indentations::push Indentations::pop Indentations::current
#[kani::proof]
#[kani::unwind(8)]
fn c04_handle_indentations_d0() {
    let (outcome, _) = handle_indentations_for(0);
    kani::cover!(outcome == 12); // an Indent was emitted
    kani::cover!(outcome == 11); // same level
    kani::cover!(outcome == 10); // inside brackets
}

// @ob id=C04.k.handle_indentations_d2 props=C04,C05,C03 kind=bounded tier=thorough timeout=900
// @bound stack of 3 levels (two open blocks, each level's tabs and spaces <= 4, strictly increasing); lines with at most 4 indentation characters
// @clause dedent to an unknown level: with two open blocks, a shallower line emits one Dedent (empty range at the first code character) per closed block and stops at an equal level; a level strictly between two stack entries is IndentationError, tab/space ambiguity against any compared level is TabError, both at the first code character
// @fns Lexer::handle_indentations IndentationLevel::compare_strict Indentations::pop
#[kani::proof]
#[kani::unwind(8)]
fn c04_handle_indentations_d2() {
    let (outcome, pops) = handle_indentations_for(2);
    kani::cover!(outcome == 2); // dedent to an unknown level
    kani::cover!(outcome == 3); // tab/space ambiguity
    kani::cover!(outcome == 1 && pops == 2);
    kani::cover!(outcome == 12);
}

/// End-of-input flush for a concrete stack depth.
fn eof_flush_for(n: usize, bol: bool) {
    let l1 = IndentationLevel { tabs: kani::any(), spaces: kani::any() };
    let l2 = IndentationLevel { tabs: kani::any(), spaces: kani::any() };
    let start: u32 = kani::any();
    let nesting: usize = kani::any();
    let mut lxr = lexer_on([None; 5], start, nesting);
    lxr.at_begin_of_line = bol;
    lxr.indentations = stack_of(n, l1, l2);
    let mut lxr = ManuallyDrop::new(lxr);
    let r = ManuallyDrop::new(lxr.consume_normal());
    if nesting > 0 {
        match &*r {
            Err(e) => assert!(matches!(e.error, LexicalErrorType::Eof) && e.location.to_u32() == start),
            Ok(()) => assert!(false),
        }
        assert!(lxr.pending.is_empty());
        return;
    }
    assert!(r.is_ok());
    let nl = if bol { 0 } else { 1 };
    assert!(lxr.pending.len() == nl + n + 1);
    for i in 0..4 {
        if i < lxr.pending.len() {
            let (tok, range) = &lxr.pending[i];
            assert!(range.start().to_u32() == start && range.end().to_u32() == start);
            if i < nl {
                assert!(matches!(tok, Tok::Newline));
            } else if i < nl + n {
                assert!(matches!(tok, Tok::Dedent));
            } else {
                assert!(matches!(tok, Tok::EndOfFile));
            }
        }
    }
    assert!(lxr.indentations.indent_stack.len() == 1);
    assert!(lxr.at_begin_of_line);
}

// @ob id=C05.k.eof_flush props=C05,C04,C03 kind=bounded tier=quick timeout=900
// @bound indentation stack with 2 open blocks, unterminated last line (see eof_flush_d0 / eof_flush_bol for the other layouts)
// @clause every INDENT is matched by a DEDENT before end of input: at end of input outside brackets the lexer emits a Newline iff the last line was not terminated, then one Dedent per open block, then EndOfFile, all empty at the end offset; inside brackets it is an Eof error there (unbalanced brackets)
// @fns Lexer::consume_normal Indentations::pop Indentations::is_empty
#[kani::proof]
#[kani::unwind(8)]
fn c05_eof_flush() {
    eof_flush_for(2, false);
}

// @ob id=C05.k.eof_flush_bol props=C05,C04,C03 kind=bounded tier=quick timeout=900
// @bound indentation stack with 1 open block, input ending right after a line break
// @clause end of input at the start of a line: no extra Newline, one Dedent per open block, then EndOfFile
// @fns Lexer::consume_normal
#[kani::proof]
#[kani::unwind(8)]
fn c05_eof_flush_bol() {
    eof_flush_for(1, true);
}

// @ob id=C05.k.eof_flush_d0 props=C05,C04,C03 kind=bounded tier=quick timeout=900
// @bound indentation stack with no open block
// @clause end of input at module level: optional Newline, then EndOfFile, no Dedent; Eof error inside brackets
// @fns Lexer::consume_normal
#[kani::proof]
#[kani::unwind(8)]
fn c05_eof_flush_d0() {
    eof_flush_for(0, kani::any());
}

// ---------------------------------------------------------------------------------------------
// String-free scanning loops: comments and blanks (bounded by the 7-character stream).

// @ob id=C05.k.lex_comment props=C05,C03 kind=bounded tier=quick timeout=600
// @bound comments of at most 6 characters (any Unicode scalar values) followed by LF, CR or end of input
// @clause the text between tokens: a comment is skipped up to, not including, the next line break or the end of input; the position advances by exactly the UTF-8 length of every skipped character (multi-byte characters in comments do not shift later ranges); nothing is emitted in the default configuration
// @fns Lexer::lex_comment Lexer::lex_and_emit_comment Lexer::next_char
#[cfg(not(feature = "full-lexer"))]
#[kani::proof]
#[kani::unwind(9)]
fn c05_lex_comment() {
    let (w, s) = any_stream();
    let all = [w[0], w[1], w[2], s[0], s[1], s[2], s[3]];
    kani::assume(w[0] == Some('#'));
    // the comment ends within the stream
    let mut end = 7usize;
    for i in 0..7 {
        if end == 7 && matches!(all[i], None | Some('\n') | Some('\r')) {
            end = i;
        }
    }
    kani::assume(end < 7);
    let start: u32 = kani::any();
    kani::assume(start <= MAX_START);
    let mut lxr = ManuallyDrop::new(lexer_at(w, s, start, kani::any(), kani::any()));
    let r = ManuallyDrop::new(lxr.lex_and_emit_comment());
    assert!(r.is_ok());
    let mut bytes = 0u32;
    for i in 0..7 {
        if i < end {
            bytes += all[i].unwrap().len_utf8() as u32;
        }
    }
    assert!(lxr.location.to_u32() == start + bytes);
    assert!(lxr.window[0] == all[end]);
    assert!(lxr.pending.is_empty());
    kani::cover!(end == 6 && bytes > 10);
    kani::cover!(all[end].is_none());
}

// @ob id=C05.k.blank_step props=C05,C03 kind=bounded tier=quick timeout=600
// @bound runs of at most 6 blanks (space, tab, form feed) followed by any character or end of input
// @clause the text between tokens: a run of spaces, tabs and form feeds inside a line is skipped entirely, the position advances by one byte per blank, nothing is emitted and nothing else is consumed
// @fns Lexer::consume_character
#[kani::proof]
#[kani::unwind(9)]
#[kani::stub(Lexer::lex_number, lex_number_unreachable)]
#[kani::stub(Lexer::lex_string, lex_string_unreachable)]
#[kani::stub(Lexer::lex_and_emit_comment, lex_comment_unreachable)]
fn c05_blank_step() {
    let (mut w, s) = any_stream();
    let first: u8 = kani::any();
    kani::assume(first < 3);
    let c0 = if first == 0 { ' ' } else if first == 1 { '\t' } else { '\x0C' };
    w[0] = Some(c0);
    let all = [w[0], w[1], w[2], s[0], s[1], s[2], s[3]];
    let mut end = 7usize;
    for i in 0..7 {
        if end == 7 && !matches!(all[i], Some(' ') | Some('\t') | Some('\x0C')) {
            end = i;
        }
    }
    kani::assume(end < 7);
    let start: u32 = kani::any();
    kani::assume(start <= MAX_START);
    let nesting: usize = kani::any();
    let bol: bool = kani::any();
    let mut lxr = ManuallyDrop::new(lexer_at(w, s, start, nesting, bol));
    // concrete argument so that CBMC resolves the dispatch
    let r = ManuallyDrop::new(if first == 0 {
        lxr.consume_character(' ')
    } else if first == 1 {
        lxr.consume_character('\t')
    } else {
        lxr.consume_character('\x0C')
    });
    assert!(r.is_ok());
    assert!(lxr.location.to_u32() == start + end as u32);
    assert!(lxr.window[0] == all[end]);
    assert!(lxr.pending.is_empty() && lxr.nesting == nesting && lxr.at_begin_of_line == bol);
    kani::cover!(end == 6);
}

// ---------------------------------------------------------------------------------------------
// Keyword table (generated by build.rs) and string-prefix dispatch

macro_rules! kw_is {
    ($s:expr, $p:pat) => {
        assert!(matches!(KEYWORDS.get($s), Some($p)));
    };
}

// @ob id=C05.k.keyword_table_a props=C05,C03 kind=bounded tier=quick timeout=900
// @bound the 18 keyword spellings False None True and as assert async await break case class continue def del elif else except finally, each checked concretely, plus near-misses
// @clause an operator or keyword token is its spelling: each Python keyword (and the soft keywords) maps to its own token in the build-time table, and case variants / prefixes / extensions of keywords are not keywords
// @fns KEYWORDS
#[kani::proof]
#[kani::unwind(12)]
fn c05_keyword_table_a() {
    kw_is!("False", Tok::False);
    kw_is!("None", Tok::None);
    kw_is!("True", Tok::True);
    kw_is!("and", Tok::And);
    kw_is!("as", Tok::As);
    kw_is!("assert", Tok::Assert);
    kw_is!("async", Tok::Async);
    kw_is!("await", Tok::Await);
    kw_is!("break", Tok::Break);
    kw_is!("case", Tok::Case);
    kw_is!("class", Tok::Class);
    kw_is!("continue", Tok::Continue);
    kw_is!("def", Tok::Def);
    kw_is!("del", Tok::Del);
    kw_is!("elif", Tok::Elif);
    kw_is!("else", Tok::Else);
    kw_is!("except", Tok::Except);
    kw_is!("finally", Tok::Finally);
    assert!(KEYWORDS.get("false").is_none());
    assert!(KEYWORDS.get("none").is_none());
    assert!(KEYWORDS.get("Def").is_none());
    assert!(KEYWORDS.get("de").is_none());
    assert!(KEYWORDS.get("defx").is_none());
    assert!(KEYWORDS.get("").is_none());
}

// @ob id=C05.k.keyword_table_b props=C05,C03 kind=bounded tier=quick timeout=900
// @bound the 18 keyword spellings for from global if import in is lambda match nonlocal not or pass raise return try type while with yield, each checked concretely, plus near-misses
// @clause an operator or keyword token is its spelling (second half of the table)
// @fns KEYWORDS
#[kani::proof]
#[kani::unwind(12)]
fn c05_keyword_table_b() {
    kw_is!("for", Tok::For);
    kw_is!("from", Tok::From);
    kw_is!("global", Tok::Global);
    kw_is!("if", Tok::If);
    kw_is!("import", Tok::Import);
    kw_is!("in", Tok::In);
    kw_is!("is", Tok::Is);
    kw_is!("lambda", Tok::Lambda);
    kw_is!("match", Tok::Match);
    kw_is!("nonlocal", Tok::Nonlocal);
    kw_is!("not", Tok::Not);
    kw_is!("or", Tok::Or);
    kw_is!("pass", Tok::Pass);
    kw_is!("raise", Tok::Raise);
    kw_is!("return", Tok::Return);
    kw_is!("try", Tok::Try);
    kw_is!("type", Tok::Type);
    kw_is!("while", Tok::While);
    kw_is!("with", Tok::With);
    kw_is!("yield", Tok::Yield);
    assert!(KEYWORDS.get("print").is_none());
    assert!(KEYWORDS.get("exec").is_none());
    assert!(KEYWORDS.get("Is").is_none());
    assert!(KEYWORDS.get("i").is_none());
    assert!(KEYWORDS.get("iff").is_none());
}

static mut LEX_STRING_KIND: Option<StringKind> = None;
static mut LEX_STRING_CALLS: u32 = 0;
fn lex_string_recorder<T: Iterator<Item = char>>(l: &mut Lexer<T>, kind: StringKind) -> LexResult {
    unsafe {
        LEX_STRING_CALLS += 1;
        LEX_STRING_KIND = Some(kind);
    }
    let p = l.get_pos();
    Ok((Tok::Dot, TextRange::empty(p)))
}

/// lex_identifier on a window that starts with the CONCRETE characters `p` followed by a symbolic
/// quote: `expect` = the kind Python's grammar gives that prefix, or None when it is not a prefix
/// (then the characters are an ordinary name and the quote starts a separate token).
fn prefix_case_q(p: &[char], expect: Option<StringKind>, quote: char) {
    let (mut w, s) = any_stream();
    for i in 0..2 {
        if i < p.len() {
            w[i] = Some(p[i]);
        }
    }
    // concrete quote: a symbolic one makes CBMC explore the identifier-scanning path as well
    w[p.len()] = Some(quote);
    let start: u32 = kani::any();
    kani::assume(start <= MAX_START);
    unsafe {
        LEX_STRING_CALLS = 0;
        LEX_STRING_KIND = None;
    }
    let mut lxr = ManuallyDrop::new(lexer_at(w, s, start, kani::any(), kani::any()));
    let r = ManuallyDrop::new(lxr.lex_identifier());
    assert!(r.is_ok());
    match expect {
        Some(k) => unsafe {
            assert!(LEX_STRING_CALLS == 1);
            assert!(LEX_STRING_KIND == Some(k));
            assert!(lxr.location.to_u32() == start); // nothing consumed before the string scanner runs
        },
        None => {
            // an ordinary name of exactly these characters; the quote is left for the next token
            assert!(unsafe { LEX_STRING_CALLS } == 0);
            assert!(lxr.location.to_u32() == start + p.len() as u32);
            assert!(lxr.window[0] == Some(quote));
            match &*r {
                Ok((Tok::Name { name }, range)) => {
                    assert!(name.len() == p.len());
                    assert!(range.start().to_u32() == start && range.end().to_u32() == start + p.len() as u32);
                }
                _ => assert!(false),
            }
        }
    }
}

fn prefix_case(p: &[char], expect: Option<StringKind>) {
    prefix_case_q(p, expect, '"');
    prefix_case_q(p, expect, '\'');
}

macro_rules! prefixes {
    ($name:ident, $( ($p:expr, $k:expr) ),* ) => {
        #[kani::proof]
        #[kani::unwind(8)]
        #[kani::stub(Lexer::lex_string, lex_string_recorder)]
        #[kani::stub(alloc::fmt::format, fmt_stub)]
        fn $name() {
            $( prefix_case(&$p, $k); )*
        }
    };
}

// @ob id=C06.k.prefix_dispatch_1 props=C06,C05 kind=bounded tier=quick timeout=600
// @bound the eight one-letter prefixes r R f F u U b B, each followed by either quote; the rest of the stream symbolic (non-prefix letters take the identifier-scanning path, which builds Strings and is out of reach)
// @clause raw prefixes in any case, the u kind marker: a one-letter prefix directly followed by a quote is handed to the string scanner with Python's kind for it, without consuming anything first
// @fns Lexer::lex_identifier StringKind::try_from(char)
prefixes!(c06_prefix_dispatch_1,
    (['r'], Some(StringKind::RawString)), (['R'], Some(StringKind::RawString)),
    (['f'], Some(StringKind::FString)), (['F'], Some(StringKind::FString)),
    (['u'], Some(StringKind::Unicode)), (['U'], Some(StringKind::Unicode)),
    (['b'], Some(StringKind::Bytes)), (['B'], Some(StringKind::Bytes)));

// @ob id=C06.k.prefix_dispatch_2 props=C06,C05 kind=bounded tier=quick timeout=600
// @bound the two-letter prefixes rf fR FR Rb bR Br, each followed by either quote (that ub ur bf rr are NOT prefixes is proved at the table: C06.k.prefix2)
// @clause raw prefixes in any case and ORDER: rf fr (raw f-string) and rb br (raw bytes) in any case
// @fns Lexer::lex_identifier StringKind::try_from([char;2])
prefixes!(c06_prefix_dispatch_2,
    (['r', 'f'], Some(StringKind::RawFString)), (['f', 'R'], Some(StringKind::RawFString)), (['F', 'R'], Some(StringKind::RawFString)),
    (['R', 'b'], Some(StringKind::RawBytes)), (['b', 'R'], Some(StringKind::RawBytes)), (['B', 'r'], Some(StringKind::RawBytes)));

fn fmt_stub(_a: std::fmt::Arguments<'_>) -> String {
    String::new()
}

// @ob id=C05.k.emoji_name_step props=C05,C03 kind=complete tier=quick timeout=600
// @clause the text under each token spells that token, on character boundaries: a character classified as emoji-presentation (classification abstracted by an arbitrary predicate, here: true) outside the dispatch table becomes a one-character Name token whose range is exactly that character's UTF-8 bytes and whose value is that character; the position advances by the same amount
// @fns Lexer::consume_character
#[kani::proof]
#[kani::unwind(8)]
#[kani::stub(unic_emoji_char::is_emoji_presentation, is_emoji_stub)]
#[kani::stub(Lexer::lex_number, lex_number_unreachable)]
#[kani::stub(Lexer::lex_string, lex_string_unreachable)]
#[kani::stub(Lexer::lex_and_emit_comment, lex_comment_unreachable)]
fn c05_emoji_name_step() {
    let (w, s) = any_stream();
    let start: u32 = kani::any();
    kani::assume(start <= MAX_START);
    let c0 = match w[0] {
        Some(c) => c,
        None => return,
    };
    kani::assume(py_longest_op(c0, Some('='), None).is_none());
    kani::assume(!matches!(c0, '0'..='9' | '#' | '"' | '\'' | '\n' | '\r' | ' ' | '\t' | '\x0C' | '\\'));
    unsafe {
        EMOJI = true;
    }
    let mut lxr = ManuallyDrop::new(lexer_at(w, s, start, kani::any(), kani::any()));
    let r = ManuallyDrop::new(lxr.consume_character(c0));
    assert!(r.is_ok());
    let l = c0.len_utf8() as u32;
    assert!(lxr.location.to_u32() == start + l);
    assert!(lxr.pending.len() == 1);
    let (tok, range) = &lxr.pending[0];
    assert!(range.start().to_u32() == start && range.end().to_u32() == start + l);
    match tok {
        Tok::Name { name } => {
            assert!(name.len() == l as usize);
            let mut tmp = [0u8; 4];
            let enc = c0.encode_utf8(&mut tmp).as_bytes();
            let nb = name.as_bytes();
            for i in 0..4 {
                if i < enc.len() {
                    assert!(nb[i] == enc[i]);
                }
            }
        }
        _ => assert!(false),
    }
    kani::cover!(l == 4);
    kani::cover!(l == 3);
}

// ---------------------------------------------------------------------------------------------
// Number prefix dispatch and identifier character classes

static mut RADIX_CALLS: u32 = 0;
static mut RADIX_SEEN: u32 = 0;
static mut RADIX_START: u32 = 0;
static mut NORMAL_CALLS: u32 = 0;
fn lex_number_radix_recorder<T: Iterator<Item = char>>(l: &mut Lexer<T>, start_pos: TextSize, radix: u32) -> LexResult {
    unsafe {
        RADIX_CALLS += 1;
        RADIX_SEEN = radix;
        RADIX_START = start_pos.to_u32();
    }
    let p = l.get_pos();
    Ok((Tok::Dot, TextRange::empty(p)))
}
fn lex_normal_number_recorder<T: Iterator<Item = char>>(l: &mut Lexer<T>) -> LexResult {
    unsafe {
        NORMAL_CALLS += 1;
    }
    let p = l.get_pos();
    Ok((Tok::Dot, TextRange::empty(p)))
}

// @ob id=C06.k.number_prefix_dispatch props=C06,C05,C03 kind=complete tier=quick
// @clause integers in bases 2, 8, 10, 16: a literal starting with 0x/0X, 0o/0O, 0b/0B is scanned with radix 16, 8, 2 (the prefix's two characters consumed, the token start remembered before them); every other start goes to the decimal/float scanner with nothing consumed (every window)
// @fns Lexer::lex_number
#[kani::proof]
#[kani::unwind(6)]
#[kani::stub(Lexer::lex_number_radix, lex_number_radix_recorder)]
#[kani::stub(Lexer::lex_normal_number, lex_normal_number_recorder)]
fn c06_number_prefix_dispatch() {
    let (w, s) = any_stream();
    let start: u32 = kani::any();
    kani::assume(start <= MAX_START);
    let mut lxr = ManuallyDrop::new(lexer_at(w, s, start, kani::any(), kani::any()));
    let r = ManuallyDrop::new(lxr.lex_number());
    assert!(r.is_ok());
    let radix = if w[0] == Some('0') {
        match w[1] {
            Some('x') | Some('X') => Some(16),
            Some('o') | Some('O') => Some(8),
            Some('b') | Some('B') => Some(2),
            _ => None,
        }
    } else {
        None
    };
    unsafe {
        match radix {
            Some(rx) => {
                assert!(RADIX_CALLS == 1 && NORMAL_CALLS == 0);
                assert!(RADIX_SEEN == rx && RADIX_START == start);
                assert!(lxr.location.to_u32() == start + 2);
            }
            None => {
                assert!(RADIX_CALLS == 0 && NORMAL_CALLS == 1);
                assert!(lxr.location.to_u32() == start);
            }
        }
    }
    kani::cover!(radix == Some(8));
    kani::cover!(radix.is_none() && w[0] == Some('0'));
}

static mut XID: bool = false;
fn xid_stub(_c: char) -> bool {
    unsafe { XID }
}

// @ob id=C05.k.identifier_chars props=C05,C03 kind=complete tier=quick
// @clause a name's characters: ASCII letters and '_' always start an identifier, ASCII digits never start one but continue one, every other character is decided by the Unicode XID tables alone (abstracted by an arbitrary predicate); end of input continues nothing (all chars)
// @fns Lexer::is_identifier_start Lexer::is_identifier_continuation
#[kani::proof]
#[kani::unwind(6)]
#[kani::stub(unic_ucd_ident::is_xid_start, xid_stub)]
#[kani::stub(unic_ucd_ident::is_xid_continue, xid_stub)]
fn c05_identifier_chars() {
    let (w, s) = any_stream();
    let x: bool = kani::any();
    unsafe {
        XID = x;
    }
    let lxr = ManuallyDrop::new(lexer_at(w, s, 0, 0, false));
    let c: char = kani::any();
    let ascii_letter = (c >= 'a' && c <= 'z') || (c >= 'A' && c <= 'Z') || c == '_';
    let start = lxr.is_identifier_start(c);
    assert!(start == (ascii_letter || x));
    let cont = lxr.is_identifier_continuation();
    match w[0] {
        None => assert!(!cont),
        Some(h) => {
            let al = (h >= 'a' && h <= 'z') || (h >= 'A' && h <= 'Z') || h == '_' || (h >= '0' && h <= '9');
            assert!(cont == (al || x));
        }
    }
    kani::cover!(start && !x);
    kani::cover!(cont && !x);
}
