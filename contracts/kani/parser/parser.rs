// Kani harnesses for parser/src/parser.rs: conversion of every LALRPOP error variant.
use super::*;
use std::mem::ManuallyDrop;

fn loc() -> TextSize {
    TextSize::new(kani::any())
}

// @ob id=C03.k.err_invalid_token props=C03,C04 kind=complete tier=quick
// @clause every parser error variant is converted to an error value carrying the offset reported by the parser: InvalidToken -> Eof at its location
// @fns parse_error_from_lalrpop
#[kani::proof]
#[kani::unwind(6)]
fn c03_err_invalid_token() {
    let l = loc();
    let e = ManuallyDrop::new(parse_error_from_lalrpop(LalrpopError::InvalidToken { location: l }, "p"));
    assert!(e.offset == l);
    assert!(matches!(e.error, ParseErrorType::Eof));
}

// @ob id=C03.k.err_extra_token props=C03,C04 kind=complete tier=quick
// @clause ExtraToken -> ExtraToken(tok) at the token's start
// @fns parse_error_from_lalrpop
#[kani::proof]
#[kani::unwind(6)]
fn c03_err_extra_token() {
    let l = loc();
    let r = loc();
    let e = ManuallyDrop::new(parse_error_from_lalrpop(LalrpopError::ExtraToken { token: (l, Tok::Comma, r) }, "p"));
    assert!(e.offset == l);
    assert!(matches!(e.error, ParseErrorType::ExtraToken(Tok::Comma)));
}

// @ob id=C03.k.err_user props=C03,C04 kind=complete tier=quick
// @clause a lexical error surfaces as Lexical(kind) at the lexer's location, kind unchanged
// @fns parse_error_from_lalrpop
#[kani::proof]
#[kani::unwind(6)]
fn c03_err_user() {
    let l = loc();
    let which: u8 = kani::any();
    kani::assume(which < 6);
    let kind = match which {
        0 => LexicalErrorType::NestingError,
        1 => LexicalErrorType::TabError,
        2 => LexicalErrorType::TabsAfterSpaces,
        3 => LexicalErrorType::IndentationError,
        4 => LexicalErrorType::Eof,
        _ => LexicalErrorType::LineContinuationError,
    };
    let e = ManuallyDrop::new(parse_error_from_lalrpop(LalrpopError::User { error: LexicalError::new(kind, l) }, "p"));
    assert!(e.offset == l);
    match (&e.error, which) {
        (ParseErrorType::Lexical(LexicalErrorType::NestingError), 0) => {}
        (ParseErrorType::Lexical(LexicalErrorType::TabError), 1) => {}
        (ParseErrorType::Lexical(LexicalErrorType::TabsAfterSpaces), 2) => {}
        (ParseErrorType::Lexical(LexicalErrorType::IndentationError), 3) => {}
        (ParseErrorType::Lexical(LexicalErrorType::Eof), 4) => {}
        (ParseErrorType::Lexical(LexicalErrorType::LineContinuationError), 5) => {}
        _ => assert!(false),
    }
    // error-kind tables
    assert!(e.error.is_tab_error() == (which == 1 || which == 2));
    assert!(e.error.is_indentation_error() == (which == 3));
}

// @ob id=C03.k.err_unrecognized_token props=C03,C04 kind=complete tier=quick
// @clause UnrecognizedToken -> UnrecognizedToken(tok, the single expected token if there is exactly one) at the token's start; an unexpected Indent, or a sole expected "Indent", is classified as an indentation error
// @fns parse_error_from_lalrpop ParseErrorType::is_indentation_error
#[kani::proof]
#[kani::unwind(9)]
fn c03_err_unrecognized_token() {
    let l = loc();
    let r = loc();
    let n: u8 = kani::any();
    kani::assume(n < 3);
    let indent_tok: bool = kani::any();
    let expected = match n {
        0 => vec![],
        1 => vec!["Indent".to_string()],
        _ => vec!["Indent".to_string(), "x".to_string()],
    };
    let tok = if indent_tok { Tok::Indent } else { Tok::Comma };
    let e = ManuallyDrop::new(parse_error_from_lalrpop(LalrpopError::UnrecognizedToken { token: (l, tok, r), expected }, "p"));
    assert!(e.offset == l);
    match &e.error {
        ParseErrorType::UnrecognizedToken(t, exp) => {
            assert!(matches!(t, Tok::Indent) == indent_tok);
            assert!(exp.is_some() == (n == 1));
        }
        _ => assert!(false),
    }
    assert!(e.error.is_indentation_error() == (indent_tok || n == 1));
    assert!(!e.error.is_tab_error());
}

// @ob id=C03.k.err_unrecognized_eof props=C03,C04 kind=complete tier=quick
// @clause UnrecognizedEof -> IndentationError when the only expected token is Indent (expected-indent detection), otherwise Eof; at the reported location
// @fns parse_error_from_lalrpop
#[kani::proof]
#[kani::unwind(9)]
fn c03_err_unrecognized_eof() {
    let l = loc();
    let n: u8 = kani::any();
    kani::assume(n < 4);
    let expected = match n {
        0 => vec![],
        1 => vec!["Indent".to_string()],
        2 => vec!["Dedent".to_string()],
        _ => vec!["Indent".to_string(), "x".to_string()],
    };
    let e = ManuallyDrop::new(parse_error_from_lalrpop(LalrpopError::UnrecognizedEof { location: l, expected }, "p"));
    assert!(e.offset == l);
    if n == 1 {
        assert!(matches!(e.error, ParseErrorType::Lexical(LexicalErrorType::IndentationError)));
        assert!(e.error.is_indentation_error());
    } else {
        assert!(matches!(e.error, ParseErrorType::Eof));
        assert!(!e.error.is_indentation_error());
    }
}

// @ob id=C03.k.parser_canary props=C03 kind=canary
// @clause vacuity guard
// @fns parse_error_from_lalrpop
#[kani::proof]
#[kani::unwind(6)]
fn c03_parser_canary() {
    let l = loc();
    let e = ManuallyDrop::new(parse_error_from_lalrpop(LalrpopError::InvalidToken { location: l }, "p"));
    assert!(e.offset.to_u32() != 7);
}
