// Kani harnesses for parser/src/function.rs.  The parameter lists are built with a CONCRETE number
// of parameters per kind (symbolic shapes of AST vectors do not terminate, DESIGN 1); which
// parameters carry a default, their names (from a two-element set) and their positions are symbolic.
// The AST values are never dropped (ManuallyDrop), so the recursive drop glue of Expr is not reached.
use super::*;
use std::mem::ManuallyDrop;

fn rng(start: u32) -> TextRange {
    TextRange::new(TextSize::new(start), TextSize::new(start))
}

fn param(name: &str, start: u32, has_default: bool) -> ast::ArgWithDefault {
    ast::ArgWithDefault {
        range: Default::default(),
        def: ast::Arg { range: rng(start), arg: ast::Identifier::new(name), annotation: None, type_comment: None },
        default: if has_default {
            Some(Box::new(ast::Expr::Constant(ast::ExprConstant { range: rng(start), value: ast::Constant::None, kind: None })))
        } else {
            None
        },
    }
}

/// validate_pos_params on npo positional-only + nar positional parameters (concrete counts),
/// symbolic default flags and positions.
fn default_order_for(npo: usize, nar: usize) {
    let flags: [bool; 4] = [kani::any(), kani::any(), kani::any(), kani::any()];
    let starts: [u32; 4] = [kani::any(), kani::any(), kani::any(), kani::any()];
    let mut po = Vec::new();
    let mut ar = Vec::new();
    for i in 0..4 {
        if i < npo {
            po.push(param("p", starts[i], flags[i]));
        } else if i < npo + nar {
            ar.push(param("a", starts[i], flags[i]));
        }
    }
    let lists = ManuallyDrop::new((po, ar));
    let r = ManuallyDrop::new(validate_pos_params(&lists));
    // Python: "non-default argument follows default argument" - over posonly ++ args, the first
    // parameter without a default that comes after one with a default
    let mut seen_default = false;
    let mut offender: Option<usize> = None;
    for i in 0..4 {
        if i < npo + nar {
            if flags[i] {
                seen_default = true;
            } else if seen_default && offender.is_none() {
                offender = Some(i);
            }
        }
    }
    match (&*r, offender) {
        (Ok(()), None) => {}
        (Err(e), Some(j)) => {
            assert!(matches!(e.error, LexicalErrorType::DefaultArgumentError));
            assert!(e.location.to_u32() == starts[j]);
        }
        _ => assert!(false),
    }
}

// @ob id=C04.k.default_order_2_2 props=C04,C03 kind=bounded tier=quick timeout=600
// @bound parameter lists with exactly 2 positional-only and 2 positional parameters; every subset carrying defaults; all positions
// @clause a non-default parameter after a default one is rejected with DefaultArgumentError located at the first offending parameter - the rule runs over positional-only and positional parameters TOGETHER (a default before the '/' marker counts for parameters after it) - and nothing else is rejected
// @fns validate_pos_params
#[kani::proof]
#[kani::unwind(7)]
fn c04_default_order_2_2() {
    default_order_for(2, 2);
}

// @ob id=C04.k.default_order_1_1 props=C04,C03 kind=bounded tier=quick timeout=600
// @bound parameter lists with (1 positional-only, 1 positional), (0, 3) and (3, 0) parameters; every subset carrying defaults
// @clause non-default parameter after a default one, other list shapes incl. a single parameter on each side of '/'
// @fns validate_pos_params
#[kani::proof]
#[kani::unwind(7)]
fn c04_default_order_1_1() {
    default_order_for(1, 1);
    default_order_for(0, 3);
    default_order_for(3, 0);
}

// @ob id=C04.k.function_canary props=C04 kind=canary
// @clause vacuity guard
// @fns validate_pos_params
#[kani::proof]
#[kani::unwind(7)]
fn c04_function_canary() {
    let lists = ManuallyDrop::new((vec![param("p", 0, kani::any())], vec![param("a", 1, kani::any())]));
    let r = ManuallyDrop::new(validate_pos_params(&lists));
    assert!(r.is_ok());
}

