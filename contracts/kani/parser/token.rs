// Kani harnesses for parser/src/token.rs
use super::*;

fn fmt_stub(_a: std::fmt::Arguments<'_>) -> String {
    String::new()
}

fn any_kind() -> StringKind {
    let k: u8 = kani::any();
    kani::assume(k < 7);
    match k {
        0 => StringKind::String,
        1 => StringKind::FString,
        2 => StringKind::Bytes,
        3 => StringKind::RawString,
        4 => StringKind::RawFString,
        5 => StringKind::RawBytes,
        _ => StringKind::Unicode,
    }
}

// @ob id=C06.k.prefix1 props=C06,C03 kind=complete tier=quick
// @clause prefix recognition: a one-letter prefix is accepted exactly for r f u b in either case, with the right kind; every other character is rejected (all chars)
// @fns StringKind::try_from(char)
#[kani::proof]
#[kani::stub(alloc::fmt::format, fmt_stub)]
fn c06_prefix1() {
    let c: char = kani::any();
    let r = StringKind::try_from(c);
    let expect = match c {
        'r' | 'R' => Some(StringKind::RawString),
        'f' | 'F' => Some(StringKind::FString),
        'u' | 'U' => Some(StringKind::Unicode),
        'b' | 'B' => Some(StringKind::Bytes),
        _ => None,
    };
    assert!(r.ok() == expect);
    kani::cover!(expect.is_some());
    kani::cover!(expect.is_none());
}

// @ob id=C06.k.prefix2 props=C06,C03 kind=complete tier=quick
// @clause prefix recognition: a two-letter prefix is accepted exactly for rf fr rb br in any case and order (Python's stringprefix/bytesprefix); ub, ur, bf, uf, ff ... are rejected (all pairs of chars)
// @fns StringKind::try_from([char;2])
#[kani::proof]
#[kani::stub(alloc::fmt::format, fmt_stub)]
fn c06_prefix2() {
    let c1: char = kani::any();
    let c2: char = kani::any();
    let r = StringKind::try_from([c1, c2]);
    let l1 = c1.to_ascii_lowercase();
    let l2 = c2.to_ascii_lowercase();
    let expect = if (l1 == 'r' && l2 == 'f') || (l1 == 'f' && l2 == 'r') {
        Some(StringKind::RawFString)
    } else if (l1 == 'r' && l2 == 'b') || (l1 == 'b' && l2 == 'r') {
        Some(StringKind::RawBytes)
    } else {
        None
    };
    assert!(r.ok() == expect);
    kani::cover!(expect == Some(StringKind::RawBytes));
    kani::cover!(l1 == 'u' && l2 == 'b');
}

// @ob id=C06.k.kind_tables props=C06,C05 kind=complete tier=quick
// @clause per-kind rules: raw / f-string / bytes / u-marker predicates and the prefix length (0, 1 or 2 characters) are those of the kind's spelling, for all seven kinds
// @fns StringKind::is_raw StringKind::is_any_fstring StringKind::is_any_bytes StringKind::is_unicode StringKind::prefix_len
#[kani::proof]
fn c06_kind_tables() {
    let k = any_kind();
    // spelling of each kind's prefix, written from the Python reference
    let (raw, f, b, u, len) = match k {
        StringKind::String => (false, false, false, false, 0),
        StringKind::FString => (false, true, false, false, 1),
        StringKind::Bytes => (false, false, true, false, 1),
        StringKind::RawString => (true, false, false, false, 1),
        StringKind::RawFString => (true, true, false, false, 2),
        StringKind::RawBytes => (true, false, true, false, 2),
        StringKind::Unicode => (false, false, false, true, 1),
    };
    assert!(k.is_raw() == raw);
    assert!(k.is_any_fstring() == f);
    assert!(k.is_any_bytes() == b);
    assert!(k.is_unicode() == u);
    assert!(k.prefix_len().to_u32() == len);
    kani::cover!(len == 2);
}

// @ob id=C06.k.token_canary props=C06 kind=canary
// @clause vacuity guard
// @fns StringKind::try_from(char)
#[kani::proof]
#[kani::stub(alloc::fmt::format, fmt_stub)]
fn c06_token_canary() {
    let c: char = kani::any();
    assert!(StringKind::try_from(c).is_err());
}
