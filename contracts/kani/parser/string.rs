// Kani harnesses for parser/src/string.rs (child module: sees StringParser).
use super::*;
use std::mem::ManuallyDrop;

fn any_kind() -> StringKind {
    let k: u8 = kani::any();
    kani::assume(k < 7);
    match k {
        0 => StringKind::String,
        1 => StringKind::FString,
        2 => StringKind::Bytes,
        3 => StringKind::RawString,
        4 => StringKind::RawFString,
        5 => StringKind::RawBytes,
        _ => StringKind::Unicode,
    }
}

fn hexval(b: u8) -> Option<u32> {
    // Python: hexdigit ::= digit | "a"..."f" | "A"..."F"
    if b >= b'0' && b <= b'9' {
        Some((b - b'0') as u32)
    } else if b >= b'a' && b <= b'f' {
        Some((b - b'a') as u32 + 10)
    } else if b >= b'A' && b <= b'F' {
        Some((b - b'A') as u32 + 10)
    } else {
        None
    }
}

/// Contract of parse_unicode_literal(N) on an ASCII text of exactly `avail` <= N + 1 characters.
fn unicode_literal_contract<const N: usize, const M: usize>() {
    let d: [u8; M] = kani::any();
    let mut i = 0;
    while i < M {
        kani::assume(d[i] < 128);
        i += 1;
    }
    let avail: usize = kani::any();
    kani::assume(avail <= M);
    // ASCII bytes are valid UTF-8; unchecked only spares CBMC the validation loop
    let s = unsafe { std::str::from_utf8_unchecked(&d[..avail]) };
    let start: u32 = kani::any();
    kani::assume(start <= u32::MAX - 64);
    let end: u32 = kani::any();
    let kind = any_kind();
    let triple: bool = kani::any();
    let mut p = StringParser::new(s, kind, triple, TextSize::new(start), TextSize::new(end));
    let pos0 = p.get_pos().to_u32();
    // offset of the first body character: prefix + opening quote(s)
    assert!(pos0 == start + kind.prefix_len().to_u32() + if triple { 3 } else { 1 });
    let r = ManuallyDrop::new(p.parse_unicode_literal(N));
    // value of the digits, from the language reference: \xhh, \uxxxx, \Uxxxxxxxx are the code
    // point with that hexadecimal value
    let mut v: u64 = 0;
    let mut ok = avail >= N;
    let mut j = 0;
    while j < N {
        if j < avail {
            match hexval(d[j]) {
                Some(x) => v = v * 16 + x as u64,
                None => ok = false,
            }
        }
        j += 1;
    }
    match &*r {
        Ok(c) => {
            assert!(ok);
            assert!(v <= 0x10FFFF);
            if v >= 0xD800 && v <= 0xDFFF {
                // documented difference: a lone surrogate is stored as U+FFFD
                assert!(*c == '\u{fffd}');
            } else {
                assert!(*c as u64 == v);
            }
            // exactly N characters consumed
            assert!(p.get_pos().to_u32() == pos0 + N as u32);
        }
        Err(e) => {
            assert!(!ok || v > 0x10FFFF);
            assert!(matches!(e.error, LexicalErrorType::UnicodeError));
            // located at the first digit position
            assert!(e.location.to_u32() == pos0);
        }
    }
    kani::cover!(r.is_ok());
    kani::cover!(r.is_err() && avail >= N);
    kani::cover!(avail < N);
}

// @ob id=C06.k.hex_escape_2 props=C06,C03 kind=complete tier=quick
// @clause \xhh: two hexadecimal digits in either case give the code point with that value; a non-hex character or an early end is a UnicodeError located at the first digit; the u32 accumulator cannot overflow; exactly two characters are consumed (all ASCII texts of length <= 3, every kind, every start offset)
// @fns StringParser::parse_unicode_literal StringParser::new StringParser::next_char
#[kani::proof]
#[kani::unwind(10)]
fn c06_hex_escape_2() {
    unicode_literal_contract::<2, 3>();
}

// @ob id=C06.k.hex_escape_4 props=C06,C03 kind=complete tier=quick
// @clause \uXXXX: four hexadecimal digits give that code point, surrogates D800-DFFF are stored as U+FFFD (documented difference), errors as for \x (all ASCII texts of length <= 5)
// @fns StringParser::parse_unicode_literal
#[kani::proof]
#[kani::unwind(10)]
fn c06_hex_escape_4() {
    unicode_literal_contract::<4, 5>();
}

// @ob id=C06.k.hex_escape_8 props=C06,C03 kind=complete tier=quick
// @clause \UXXXXXXXX: eight hexadecimal digits give that code point, values above 10FFFF are a UnicodeError, surrogates become U+FFFD, the shifts (up to 28 bits) never overflow u32 (all ASCII texts of length <= 9)
// @fns StringParser::parse_unicode_literal
#[kani::proof]
#[kani::unwind(12)]
fn c06_hex_escape_8() {
    unicode_literal_contract::<8, 9>();
}

// @ob id=C06.k.hex_escape_nonascii props=C06,C03 kind=complete tier=quick
// @clause a non-ASCII character where a hex digit is expected is a UnicodeError (never a digit value, never a panic): any char as the first of two
// @fns StringParser::parse_unicode_literal
#[kani::proof]
#[kani::unwind(10)]
fn c06_hex_escape_nonascii() {
    let c: char = kani::any();
    kani::assume(!c.is_ascii());
    let mut buf = [0u8; 5];
    let l = c.encode_utf8(&mut buf[..4]).len();
    buf[l] = b'0';
    let s = std::str::from_utf8(&buf[..l + 1]).unwrap();
    let mut p = StringParser::new(s, StringKind::String, false, TextSize::new(0), TextSize::new(10));
    let r = ManuallyDrop::new(p.parse_unicode_literal(2));
    match &*r {
        Ok(_) => assert!(false),
        Err(e) => assert!(matches!(e.error, LexicalErrorType::UnicodeError)),
    }
}

// @ob id=C06.k.string_canary props=C06 kind=canary
// @clause vacuity guard
// @fns StringParser::parse_unicode_literal
#[kani::proof]
#[kani::unwind(10)]
fn c06_string_canary() {
    let d: [u8; 2] = kani::any();
    kani::assume(d[0] < 128 && d[1] < 128);
    let s = std::str::from_utf8(&d).unwrap();
    let mut p = StringParser::new(s, StringKind::String, false, TextSize::new(0), TextSize::new(10));
    let r = ManuallyDrop::new(p.parse_unicode_literal(2));
    assert!(r.is_err());
}

/// Contract of parse_octet for a text whose FOLLOWING characters are concrete (`rest`, ending in a
/// non-octal character) and whose first digit is symbolic: String building from symbolic text is
/// beyond CBMC (DESIGN 1), one symbolic character is not.
fn octal_escape_for(rest: &'static str, following_digits: &[u32]) {
    let first_d: u8 = kani::any();
    kani::assume(first_d < 8);
    let first = (b'0' + first_d) as char;
    let mut expect = first_d as u32;
    for i in 0..2 {
        if i < following_digits.len() {
            expect = expect * 8 + following_digits[i]; // at most three digits in total
        }
    }
    let mut p = StringParser::new(rest, StringKind::String, false, TextSize::new(0), TextSize::new(20));
    let pos0 = p.get_pos().to_u32();
    let c = p.parse_octet(first);
    // Python: \ooo is the character with octal value ooo (up to 0o777 = U+01FF in text literals)
    assert!(c as u32 == expect);
    let consumed = if following_digits.len() >= 2 { 2 } else { following_digits.len() };
    assert!(p.get_pos().to_u32() == pos0 + consumed as u32);
    kani::cover!(expect > 0xff || following_digits.len() < 2);
}

// @ob id=C06.k.octal_escape_1 props=C06,C03 kind=bounded tier=quick timeout=600
// @bound first digit symbolic (0-7); followed by the concrete texts "x", "" and "8"
// @clause 1-3 digit octal escapes: a single digit is the character with that value; a non-octal character (also 8 and 9) or the end of the literal ends the escape; the unwraps in parse_octet cannot fail
// @fns StringParser::parse_octet
#[kani::proof]
#[kani::unwind(12)]
fn c06_octal_escape_1() {
    octal_escape_for("x", &[]);
    octal_escape_for("", &[]);
    octal_escape_for("8", &[]);
}

// @ob id=C06.k.octal_escape_2 props=C06,C03 kind=bounded tier=quick timeout=600
// @bound first digit symbolic (0-7); followed by the concrete texts "7x", "0" and "5" + a two-byte character
// @clause 1-3 digit octal escapes: two digits
// @fns StringParser::parse_octet
#[kani::proof]
#[kani::unwind(12)]
fn c06_octal_escape_2() {
    octal_escape_for("7x", &[7]);
    octal_escape_for("0", &[0]);
    octal_escape_for("5\u{e9}", &[5]);
}

// @ob id=C06.k.octal_escape_3 props=C06,C03 kind=bounded tier=quick timeout=600
// @bound first digit symbolic (0-7); followed by the concrete texts "77x", "001" and "52"
// @clause 1-3 digit octal escapes: three digits up to 777 = U+01FF - values above 377 are NOT reduced modulo 256 in text literals - and a fourth digit is not part of the escape
// @fns StringParser::parse_octet
#[kani::proof]
#[kani::unwind(12)]
fn c06_octal_escape_3() {
    octal_escape_for("77x", &[7, 7]);
    octal_escape_for("001", &[0, 0]);
    octal_escape_for("52", &[5, 2]);
}


// ---------------------------------------------------------------------------------------------
// Simple escapes (bounded: one concrete escape letter per case, the literal kind symbolic)

/// format!("\\{c}") stand-in: alloc::fmt::format through a fixed buffer writer (same text; avoids
/// String growth of symbolic size inside core::fmt).
fn fmt_small(args: std::fmt::Arguments<'_>) -> String {
    struct B {
        b: [u8; 8],
        n: usize,
    }
    impl std::fmt::Write for B {
        fn write_str(&mut self, s: &str) -> std::fmt::Result {
            let by = s.as_bytes();
            assert!(by.len() <= 6);
            for i in 0..6 {
                if i < by.len() {
                    if self.n < 8 {
                        self.b[self.n] = by[i];
                    }
                    self.n += 1;
                }
            }
            Ok(())
        }
    }
    let mut w = B { b: [0; 8], n: 0 };
    let _ = std::fmt::write(&mut w, args);
    assert!(w.n <= 8);
    let mut out = String::with_capacity(8);
    out.push_str(unsafe { std::str::from_utf8_unchecked(&w.b[..w.n]) });
    out
}

/// parse_escaped_char on the text after a backslash; expect = the decoded text (None = error).
fn simple_escape_case(after_backslash: &'static str, expect_text: Option<&'static [u8]>, expect_bytes_kind: Option<&'static [u8]>) {
    let kind = any_kind();
    let start: u32 = kani::any();
    kani::assume(start <= u32::MAX - 64);
    let mut p = StringParser::new(after_backslash, kind, false, TextSize::new(start), TextSize::new(start + 20));
    let r = ManuallyDrop::new(p.parse_escaped_char());
    let expect = if kind.is_any_bytes() { expect_bytes_kind } else { expect_text };
    match (&*r, expect) {
        (Ok(s), Some(e)) => {
            let sb = s.as_bytes();
            assert!(sb.len() == e.len());
            for i in 0..4 {
                if i < e.len() {
                    assert!(sb[i] == e[i]);
                }
            }
        }
        (Err(_), None) => {}
        _ => assert!(false),
    }
}

// @ob id=C06.k.simple_escapes_a props=C06,C03 kind=bounded tier=quick timeout=900
// @bound the escapes \\ \' \" \a \b \f, each in every literal kind (text, bytes, raw variants, f-string, u)
// @clause simple escapes decode to their Python values in text and bytes literals: backslash, quotes, BEL, BS, FF
// @fns StringParser::parse_escaped_char
#[kani::proof]
#[kani::unwind(8)]
#[kani::stub(alloc::fmt::format, fmt_small)]
fn c06_simple_escapes_a() {
    simple_escape_case("\\", Some(b"\\"), Some(b"\\"));
    simple_escape_case("'", Some(b"'"), Some(b"'"));
    simple_escape_case("\"", Some(b"\""), Some(b"\""));
    simple_escape_case("a", Some(b"\x07"), Some(b"\x07"));
    simple_escape_case("b", Some(b"\x08"), Some(b"\x08"));
    simple_escape_case("f", Some(b"\x0c"), Some(b"\x0c"));
}

// @ob id=C06.k.simple_escapes_b props=C06,C03 kind=bounded tier=quick timeout=900
// @bound the escapes \n \r \t \v and backslash-newline, each in every literal kind
// @clause simple escapes: LF, CR, TAB, VT; a backslash followed by a line break is a line continuation (decodes to nothing)
// @fns StringParser::parse_escaped_char
#[kani::proof]
#[kani::unwind(8)]
#[kani::stub(alloc::fmt::format, fmt_small)]
fn c06_simple_escapes_b() {
    simple_escape_case("n", Some(b"\n"), Some(b"\n"));
    simple_escape_case("r", Some(b"\r"), Some(b"\r"));
    simple_escape_case("t", Some(b"\t"), Some(b"\t"));
    simple_escape_case("v", Some(b"\x0b"), Some(b"\x0b"));
    simple_escape_case("\n", Some(b""), Some(b""));
}

// @ob id=C06.k.unknown_escapes props=C06,C03,C04 kind=bounded tier=quick timeout=900
// @bound the unknown escapes \q \8 \. in every kind; \u \U \N in bytes kinds; a non-ASCII character after the backslash
// @clause unknown escapes are kept verbatim (backslash + character); \u \U \N are not escapes in bytes literals (kept verbatim there); a non-ASCII character after a backslash in a bytes literal is rejected (bytes can only contain ASCII), in a text literal it is kept
// @fns StringParser::parse_escaped_char
#[kani::proof]
#[kani::unwind(8)]
#[kani::stub(alloc::fmt::format, fmt_small)]
fn c06_unknown_escapes() {
    simple_escape_case("q", Some(b"\\q"), Some(b"\\q"));
    simple_escape_case("8", Some(b"\\8"), Some(b"\\8"));
    simple_escape_case(".", Some(b"\\."), Some(b"\\."));
    simple_escape_case("\u{e9}", Some(b"\\\xc3\xa9"), None);
    // \u \U \N: escapes in text literals (here without their digits/braces: an error), ordinary
    // characters in bytes literals
    simple_escape_case("u", None, Some(b"\\u"));
    simple_escape_case("U", None, Some(b"\\U"));
    simple_escape_case("N", None, Some(b"\\N"));
}
