// Kani harnesses for ast/src/generic.rs: Arguments <-> PythonArguments conversions.
// Bounded stand-in (DESIGN 3, C14): iterator-adaptor code over the recursive AST is outside the
// Verus subset, and CBMC only copes with CONCRETE shapes (how many parameters of each kind, which
// of them carry a default).  Each harness fixes one family of shapes; the identity of every
// parameter and of every default expression (a u8 tag stored in its range) stays symbolic.
use super::*;
use std::mem::ManuallyDrop;

type R = u8;

fn arg(name: &str, tag: u8) -> Arg<R> {
    Arg { range: tag, arg: Identifier::new(name), annotation: None, type_comment: None }
}
fn dflt(tag: u8) -> Expr<R> {
    Expr::Constant(ExprConstant { range: tag, value: Constant::None, kind: None })
}
fn awd(name: &str, tag: u8, has_default: bool, dtag: u8) -> ArgWithDefault<R> {
    ArgWithDefault { range: Default::default(), def: arg(name, tag), default: if has_default { Some(Box::new(dflt(dtag))) } else { None } }
}
fn dtag_of(d: &Option<Box<Expr<R>>>) -> Option<u8> {
    match d {
        None => None,
        Some(b) => match &**b {
            Expr::Constant(c) => Some(c.range),
            _ => Some(255),
        },
    }
}
fn same_name(a: &Arg<R>, n: &str) -> bool {
    a.arg.as_str().as_bytes() == n.as_bytes()
}

const PO: [&str; 2] = ["p0", "p1"];
const AR: [&str; 2] = ["a0", "a1"];
const KW: [&str; 3] = ["k0", "k1", "k2"];

/// One concrete shape: npo positional-only, nar positional, the last ndef of them with defaults
/// (the parser's own validated precondition: positional defaults form a suffix), nkw keyword-only
/// parameters whose default flags are the bits of kmask (unconstrained, as the quantifier demands),
/// optional *vararg and **kwarg.  by_ref selects to_python_arguments vs into_python_arguments.
fn roundtrip_shape(npo: usize, nar: usize, ndef: usize, nkw: usize, kmask: u8, va: bool, kwa: bool, by_ref: bool) {
    let tags: [u8; 8] = kani::any();
    let dtags: [u8; 8] = kani::any();
    let npos = npo + nar;
    let has_def_pos = |i: usize| i + ndef >= npos; // position i (0-based over posonly++args)
    let has_def_kw = |i: usize| (kmask >> i) & 1 == 1;
    let mut posonly = Vec::new();
    for i in 0..npo {
        posonly.push(awd(PO[i], tags[i], has_def_pos(i), dtags[i]));
    }
    let mut args = Vec::new();
    for i in 0..nar {
        args.push(awd(AR[i], tags[2 + i], has_def_pos(npo + i), dtags[2 + i]));
    }
    let mut kwonly = Vec::new();
    for i in 0..nkw {
        kwonly.push(awd(KW[i], tags[4 + i], has_def_kw(i), dtags[4 + i]));
    }
    let orig = Arguments::<R> {
        range: Default::default(),
        posonlyargs: posonly,
        args,
        vararg: if va { Some(Box::new(arg("va", tags[7]))) } else { None },
        kwonlyargs: kwonly,
        kwarg: if kwa { Some(Box::new(arg("kw", tags[7]))) } else { None },
    };
    let py = if by_ref {
        let o = ManuallyDrop::new(orig);
        o.to_python_arguments()
    } else {
        orig.into_python_arguments()
    };
    // ---- the Python-style form -------------------------------------------------------------
    assert!(py.posonlyargs.len() == npo && py.args.len() == nar && py.kwonlyargs.len() == nkw);
    assert!(py.defaults.len() == ndef); // <= npo + nar: the subtraction in into_arguments cannot underflow
    let ndk = (kmask as u32 & ((1u32 << nkw) - 1)).count_ones() as usize;
    assert!(py.kw_defaults.len() == ndk);
    // documented order: keyword-only parameters without defaults first, each kind in source order
    let mut next_plain = 0;
    let mut next_def = nkw - ndk;
    for i in 0..nkw {
        if has_def_kw(i) {
            assert!(same_name(&py.kwonlyargs[next_def], KW[i]) && py.kwonlyargs[next_def].range == tags[4 + i]);
            match &py.kw_defaults[next_def - (nkw - ndk)] {
                Expr::Constant(c) => assert!(c.range == dtags[4 + i]),
                _ => assert!(false),
            }
            next_def += 1;
        } else {
            assert!(same_name(&py.kwonlyargs[next_plain], KW[i]) && py.kwonlyargs[next_plain].range == tags[4 + i]);
            next_plain += 1;
        }
    }
    assert!(py.vararg.is_some() == va && py.kwarg.is_some() == kwa);
    // ---- and back --------------------------------------------------------------------------
    let back = ManuallyDrop::new(py.into_arguments());
    assert!(back.posonlyargs.len() == npo && back.args.len() == nar && back.kwonlyargs.len() == nkw);
    for i in 0..npo {
        let b = &back.posonlyargs[i];
        assert!(same_name(&b.def, PO[i]) && b.def.range == tags[i]);
        assert!(dtag_of(&b.default) == if has_def_pos(i) { Some(dtags[i]) } else { None });
    }
    for i in 0..nar {
        let b = &back.args[i];
        assert!(same_name(&b.def, AR[i]) && b.def.range == tags[2 + i]);
        assert!(dtag_of(&b.default) == if has_def_pos(npo + i) { Some(dtags[2 + i]) } else { None });
    }
    // every keyword-only parameter is present exactly once and keeps exactly its own default
    for i in 0..nkw {
        let mut found = 0;
        for j in 0..nkw {
            let b = &back.kwonlyargs[j];
            if same_name(&b.def, KW[i]) {
                found += 1;
                assert!(b.def.range == tags[4 + i]);
                assert!(dtag_of(&b.default) == if has_def_kw(i) { Some(dtags[4 + i]) } else { None });
            }
        }
        assert!(found == 1);
    }
    match &back.vararg {
        Some(a) => assert!(va && same_name(a, "va") && a.range == tags[7]),
        None => assert!(!va),
    }
    match &back.kwarg {
        Some(a) => assert!(kwa && same_name(a, "kw") && a.range == tags[7]),
        None => assert!(!kwa),
    }
}

// @ob id=C14.k.kwonly_default_before_plain props=C14 kind=bounded tier=quick timeout=600
// @bound shape def f(*, k0=<d>, k1): two keyword-only parameters, the first with a default; tags symbolic; both conversion entry points
// @clause every parameter keeps exactly its own default, incl. keyword-only parameters with defaults before ones without; the Python-style form lists keyword-only parameters without defaults first
// @fns Arguments::to_python_arguments Arguments::into_python_arguments PythonArguments::into_arguments ArgWithDefault::from_arg ArgWithDefault::to_arg ArgWithDefault::into_arg
#[kani::proof]
#[kani::unwind(4)]
fn c14_kwonly_default_before_plain() {
    roundtrip_shape(0, 0, 0, 2, 0b01, false, false, false);
}
