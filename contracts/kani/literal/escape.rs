// Kani harnesses for literal/src/escape.rs (child module: sees private items).
// Injected by /verif/lib/kani_engine.py as `#[cfg(kani)] mod verif_kani_escape;`
use super::*;

/// fmt::Write sink that records the first 12 bytes and the total length.
struct Buf {
    b: [u8; 12],
    n: usize,
}
impl Buf {
    fn new() -> Self {
        Buf { b: [0; 12], n: 0 }
    }
}
impl std::fmt::Write for Buf {
    fn write_str(&mut self, s: &str) -> std::fmt::Result {
        // loop with a constant bound (CBMC unrolls it fully); pieces are at most 8 bytes
        let bytes = s.as_bytes();
        let l = bytes.len();
        assert!(l <= 10);
        for i in 0..10 {
            if i < l {
                if self.n < 12 {
                    self.b[self.n] = bytes[i];
                }
                self.n += 1;
            }
        }
        Ok(())
    }
}

fn any_quote() -> Quote {
    if kani::any() {
        Quote::Single
    } else {
        Quote::Double
    }
}

fn hexd(v: u32, shift: u32) -> u8 {
    let n = ((v >> shift) & 0xf) as u8;
    if n < 10 {
        b'0' + n
    } else {
        b'a' + (n - 10)
    }
}

/// Python's repr form of one byte inside b'...' with outer quote `q`, written from the
/// language reference (bytes.__repr__): returns (bytes, len).
fn py_bytes_repr_char(b: u8, q: u8) -> ([u8; 12], usize) {
    let mut e = [0u8; 12];
    let n;
    if b == b'\\' || b == q {
        e[0] = b'\\';
        e[1] = b;
        n = 2;
    } else if b == b'\t' {
        e[0] = b'\\';
        e[1] = b't';
        n = 2;
    } else if b == b'\n' {
        e[0] = b'\\';
        e[1] = b'n';
        n = 2;
    } else if b == b'\r' {
        e[0] = b'\\';
        e[1] = b'r';
        n = 2;
    } else if b >= 0x20 && b < 0x7f {
        e[0] = b;
        n = 1;
    } else {
        e[0] = b'\\';
        e[1] = b'x';
        e[2] = hexd(b as u32, 4);
        e[3] = hexd(b as u32, 0);
        n = 4;
    }
    (e, n)
}

/// Python's repr form of one character inside '...' (unicode_repr in CPython), parameterised by
/// the printable classification of non-ASCII characters.
fn py_str_repr_char(c: char, q: char, printable: bool) -> ([u8; 12], usize) {
    let v = c as u32;
    let mut e = [0u8; 12];
    let n;
    if c == '\\' || c == q {
        e[0] = b'\\';
        e[1] = v as u8;
        n = 2;
    } else if c == '\t' {
        e[0] = b'\\';
        e[1] = b't';
        n = 2;
    } else if c == '\n' {
        e[0] = b'\\';
        e[1] = b'n';
        n = 2;
    } else if c == '\r' {
        e[0] = b'\\';
        e[1] = b'r';
        n = 2;
    } else if v < 0x20 || v == 0x7f {
        e[0] = b'\\';
        e[1] = b'x';
        e[2] = hexd(v, 4);
        e[3] = hexd(v, 0);
        n = 4;
    } else if v < 0x7f {
        e[0] = v as u8;
        n = 1;
    } else if printable {
        let mut tmp = [0u8; 4];
        let s = c.encode_utf8(&mut tmp);
        n = s.len();
        let sb = s.as_bytes();
        for i in 0..4 {
            if i < n {
                e[i] = sb[i];
            }
        }
    } else if v < 0x100 {
        e[0] = b'\\';
        e[1] = b'x';
        e[2] = hexd(v, 4);
        e[3] = hexd(v, 0);
        n = 4;
    } else if v < 0x10000 {
        e[0] = b'\\';
        e[1] = b'u';
        e[2] = hexd(v, 12);
        e[3] = hexd(v, 8);
        e[4] = hexd(v, 4);
        e[5] = hexd(v, 0);
        n = 6;
    } else {
        e[0] = b'\\';
        e[1] = b'U';
        e[2] = hexd(v, 28);
        e[3] = hexd(v, 24);
        e[4] = hexd(v, 20);
        e[5] = hexd(v, 16);
        e[6] = hexd(v, 12);
        e[7] = hexd(v, 8);
        e[8] = hexd(v, 4);
        e[9] = hexd(v, 0);
        n = 10;
    }
    (e, n)
}

static mut PRINTABLE: bool = false;
fn is_printable_stub(_c: char) -> bool {
    unsafe { PRINTABLE }
}

// @ob id=C16.k.choose_quote props=C16 kind=complete tier=quick
// @clause quote choice: the preferred quote unless the value contains it and not the other one; second component = number of occurrences of the chosen quote (all usize counts, both preferences)
// @fns choose_quote Quote::swap
#[kani::proof]
fn c16_choose_quote() {
    let s: usize = kani::any();
    let d: usize = kani::any();
    let pref = any_quote();
    let (q, esc) = choose_quote(s, d, pref);
    match pref {
        Quote::Single => {
            // the statement: single quotes unless the value contains a single and no double quote
            let expect_double = s > 0 && d == 0;
            assert!((q == Quote::Double) == expect_double);
        }
        Quote::Double => {
            let expect_single = d > 0 && s == 0;
            assert!((q == Quote::Single) == expect_single);
        }
    }
    let count_of_chosen = if q == Quote::Single { s } else { d };
    assert!(esc == count_of_chosen);
    kani::cover!(q != pref);
    kani::cover!(q == pref && esc > 0);
}

// @ob id=C16.k.ascii_char_shape props=C16,C03 kind=complete tier=quick
// @clause every byte x both quotes: the bytes written are exactly Python's bytes-repr form, and their number is escaped_char_len (+1 for the chosen quote)
// @fns AsciiEscape::write_char AsciiEscape::escaped_char_len Quote::to_byte
#[kani::proof]
fn c16_ascii_char_shape() {
    let b: u8 = kani::any();
    let q = any_quote();
    let mut w = Buf::new();
    AsciiEscape::write_char(b, q, &mut w).unwrap();
    let (e, n) = py_bytes_repr_char(b, q.to_byte());
    assert!(w.n == n);
    let mut i = 0;
    while i < 4 {
        if i < n {
            assert!(w.b[i] == e[i]);
        }
        i += 1;
    }
    // announced length: what output_layout_with_checker adds for this byte
    let incr = if b == b'\'' || b == b'"' { 1 } else { AsciiEscape::escaped_char_len(b) };
    let announced = incr + if b == q.to_byte() { 1 } else { 0 };
    assert!(announced == w.n);
    kani::cover!(n == 4);
    kani::cover!(n == 2 && b == q.to_byte());
    kani::cover!(n == 1);
}

// @ob id=C16.k.ascii_fastpath_char props=C16,C03 kind=complete tier=quick
// @clause fast path (and the unsafe from_utf8_unchecked in write_source): the per-byte increment is >= 1, and equals 1 only for printable ASCII other than backslash, for which write_char emits the byte unchanged unless it is the chosen quote
// @fns AsciiEscape::escaped_char_len AsciiEscape::write_char
#[kani::proof]
fn c16_ascii_fastpath_char() {
    let b: u8 = kani::any();
    let q = any_quote();
    let incr = if b == b'\'' || b == b'"' { 1 } else { AsciiEscape::escaped_char_len(b) };
    assert!(incr >= 1);
    if incr == 1 {
        assert!(b >= 0x20 && b <= 0x7e && b != b'\\'); // valid one-byte UTF-8
        if b != q.to_byte() {
            let mut w = Buf::new();
            AsciiEscape::write_char(b, q, &mut w).unwrap();
            assert!(w.n == 1 && w.b[0] == b);
        }
    }
    kani::cover!(incr == 1);
    kani::cover!(incr == 4);
}

// @ob id=C16.k.unicode_char_shape props=C16,C03 kind=complete tier=quick
// @clause every char x both quotes x every printable classification: the text written is exactly Python's str-repr form (\\ \q \n \t \r \xhh \uhhhh \Uhhhhhhhh or the char itself) and its length is escaped_char_len (+1 for the chosen quote)
// @fns UnicodeEscape::write_char UnicodeEscape::escaped_char_len Quote::to_char
#[kani::proof]
#[kani::stub(crate::char::is_printable, is_printable_stub)]
fn c16_unicode_char_shape() {
    let c: char = kani::any();
    let p: bool = kani::any();
    unsafe {
        PRINTABLE = p;
    }
    let q = any_quote();
    let mut w = Buf::new();
    UnicodeEscape::write_char(c, q, &mut w).unwrap();
    let (e, n) = py_str_repr_char(c, q.to_char(), p);
    assert!(w.n == n);
    let mut i = 0;
    while i < 10 {
        if i < n {
            assert!(w.b[i] == e[i]);
        }
        i += 1;
    }
    let incr = if c == '\'' || c == '"' { 1 } else { UnicodeEscape::escaped_char_len(c) };
    let announced = incr + if c == q.to_char() { 1 } else { 0 };
    assert!(announced == w.n);
    kani::cover!(n == 10);
    kani::cover!(n == 6);
    kani::cover!(n == 4 && (c as u32) > 0x7f);
    kani::cover!(n == 3 && p);
}

// @ob id=C16.k.unicode_fastpath_char props=C16 kind=complete tier=quick
// @clause fast path: the per-char increment is >= the char's UTF-8 length, with equality only when write_char emits the char unchanged (unless it is the chosen quote) - so layout.len == source_len implies the slow path would copy the source
// @fns UnicodeEscape::escaped_char_len UnicodeEscape::write_char
#[kani::proof]
#[kani::stub(crate::char::is_printable, is_printable_stub)]
fn c16_unicode_fastpath_char() {
    let c: char = kani::any();
    let p: bool = kani::any();
    unsafe {
        PRINTABLE = p;
    }
    let q = any_quote();
    let incr = if c == '\'' || c == '"' { 1 } else { UnicodeEscape::escaped_char_len(c) };
    assert!(incr >= c.len_utf8());
    if incr == c.len_utf8() && c != q.to_char() {
        let mut w = Buf::new();
        UnicodeEscape::write_char(c, q, &mut w).unwrap();
        let mut tmp = [0u8; 4];
        let s = c.encode_utf8(&mut tmp).as_bytes();
        assert!(w.n == s.len());
        for i in 0..4 {
            if i < s.len() {
                assert!(w.b[i] == s[i]);
            }
        }
    }
    kani::cover!(incr == c.len_utf8() && c.len_utf8() == 4);
    kani::cover!(incr > c.len_utf8());
}

// @ob id=C16.k.canary props=C16 kind=canary
// @clause vacuity guard: a false claim about escaped_char_len must be refuted
// @fns AsciiEscape::escaped_char_len
#[kani::proof]
fn c16_canary() {
    let b: u8 = kani::any();
    assert!(AsciiEscape::escaped_char_len(b) != 4);
}

// ---------------------------------------------------------------------------------------------
// Whole-string obligations (bounded): the layout loop and the writers, tied together.

/// "<c1><c2>" (n <= 2 symbolic chars) as a str over a caller-provided buffer.
fn two_chars(c1: char, c2: char, n: usize, buf: &mut [u8; 8]) -> &str {
    let mut off = 0;
    if n >= 1 {
        off += c1.encode_utf8(&mut buf[0..4]).len();
    }
    if n >= 2 {
        let l1 = off;
        off += c2.encode_utf8(&mut buf[l1..l1 + 4]).len();
    }
    unsafe { std::str::from_utf8_unchecked(&buf[..off]) }
}

/// Sink that only counts bytes and remembers the first and last one.
struct CountBuf {
    n: usize,
    first: u8,
    last: u8,
}
impl std::fmt::Write for CountBuf {
    fn write_str(&mut self, s: &str) -> std::fmt::Result {
        let b = s.as_bytes();
        if !b.is_empty() {
            if self.n == 0 {
                self.first = b[0];
            }
            self.last = b[b.len() - 1];
        }
        self.n += b.len();
        Ok(())
    }
}

// @ob id=C16.k.unicode_layout_sum props=C16,C03 kind=bounded tier=quick timeout=900
// @bound strings of at most 2 characters (each any Unicode scalar value), both preferred quotes, every printable classification
// @clause the length announced by the precomputed layout: for a text value it is the sum of the per-character increments plus one backslash per occurrence of the chosen quote, and the quote is Python's choice (single unless the value contains a single and no double quote) - the layout loop over chars(), which the Verus unit cannot reach
// @fns UnicodeEscape::repr_layout UnicodeEscape::output_layout_with_checker UnicodeEscape::escaped_char_len choose_quote
#[kani::proof]
#[kani::unwind(6)]
#[kani::stub(crate::char::is_printable, is_printable_stub)]
fn c16_unicode_layout_sum() {
    let c1: char = kani::any();
    let c2: char = kani::any();
    let n: usize = kani::any();
    kani::assume(n <= 2);
    unsafe {
        PRINTABLE = kani::any();
    }
    let mut buf = [0u8; 8];
    let s = two_chars(c1, c2, n, &mut buf);
    let pref = any_quote();
    let layout = UnicodeEscape::repr_layout(s, pref);
    let cs = [c1, c2];
    let mut singles = 0;
    let mut doubles = 0;
    let mut sum = 0;
    for i in 0..2 {
        if i < n {
            if cs[i] == '\'' {
                singles += 1;
                sum += 1;
            } else if cs[i] == '"' {
                doubles += 1;
                sum += 1;
            } else {
                sum += UnicodeEscape::escaped_char_len(cs[i]);
            }
        }
    }
    let expect_quote = match pref {
        Quote::Single => if singles > 0 && doubles == 0 { Quote::Double } else { Quote::Single },
        Quote::Double => if doubles > 0 && singles == 0 { Quote::Single } else { Quote::Double },
    };
    assert!(layout.quote == expect_quote);
    let escaped = if expect_quote == Quote::Single { singles } else { doubles };
    assert!(layout.len == Some(sum + escaped));
    kani::cover!(n == 2 && singles == 1 && doubles == 1);
    kani::cover!(n == 2 && sum == 20);
}

// @ob id=C16.k.bytes_repr_length props=C16,C03 kind=bounded tier=quick timeout=900
// @bound byte strings of at most 2 bytes (all values)
// @clause its length equals the length announced by the precomputed layout: the bytes repr actually written is b, quote, body, quote with a body of exactly layout.len bytes - whichever of the fast unescaped path and the slow path is taken - and to_string() never fails for these sizes
// @fns AsciiEscape::new_repr AsciiEscape::repr_layout BytesRepr::write Escape::write_body Escape::changed AsciiEscape::write_source AsciiEscape::write_body_slow
#[kani::proof]
#[kani::unwind(6)]
fn c16_bytes_repr_length() {
    let data: [u8; 2] = kani::any();
    let n: usize = kani::any();
    kani::assume(n <= 2);
    let esc = AsciiEscape::new_repr(&data[..n]);
    let announced = esc.layout().len;
    assert!(announced.is_some());
    let q = esc.layout().quote.to_byte();
    let mut w = CountBuf { n: 0, first: 0, last: 0 };
    esc.bytes_repr().write(&mut w).unwrap();
    assert!(w.n == announced.unwrap() + 3);
    assert!(w.first == b'b' && w.last == q);
    // fast path taken iff nothing needs escaping
    let plain = |b: u8| b >= 0x20 && b <= 0x7e && b != b'\\' && b != q;
    let all_plain = (n < 1 || plain(data[0])) && (n < 2 || plain(data[1]));
    assert!(esc.changed() == !all_plain);
    kani::cover!(!esc.changed() && n == 2);
    kani::cover!(announced == Some(8));
}

// @ob id=C16.k.str_repr_length props=C16,C03 kind=bounded tier=quick timeout=900
// @bound strings of at most 2 characters (each any Unicode scalar value), every printable classification
// @clause its length equals the length announced by the precomputed layout: the text repr actually written is quote, body, quote with a body of exactly layout.len bytes, whichever of the fast unescaped path and the slow path is taken; the fast path is taken exactly when no character needs escaping
// @fns UnicodeEscape::new_repr StrRepr::write Escape::write_body Escape::changed UnicodeEscape::write_source UnicodeEscape::write_body_slow
#[kani::proof]
#[kani::unwind(6)]
#[kani::stub(crate::char::is_printable, is_printable_stub)]
fn c16_str_repr_length() {
    let c1: char = kani::any();
    let c2: char = kani::any();
    let n: usize = kani::any();
    kani::assume(n <= 2);
    let p: bool = kani::any();
    unsafe {
        PRINTABLE = p;
    }
    let mut buf = [0u8; 8];
    let s = two_chars(c1, c2, n, &mut buf);
    let esc = UnicodeEscape::new_repr(s);
    let announced = esc.layout().len;
    assert!(announced.is_some());
    let q = esc.layout().quote;
    let mut w = CountBuf { n: 0, first: 0, last: 0 };
    esc.str_repr().write(&mut w).unwrap();
    assert!(w.n == announced.unwrap() + 2);
    assert!(w.first == q.to_byte() && w.last == q.to_byte());
    // unchanged iff every character is written as itself
    let cs = [c1, c2];
    let mut all_plain = true;
    for i in 0..2 {
        if i < n {
            let c = cs[i];
            let plain = c != q.to_char() && c != '\\' && if c.is_ascii() { c >= ' ' && c != '\x7f' } else { p };
            if !plain {
                all_plain = false;
            }
        }
    }
    assert!(esc.changed() == !all_plain);
    kani::cover!(!esc.changed() && n == 2 && c1.len_utf8() == 3);
    kani::cover!(esc.changed() && announced == Some(20));
}
