// Kani harnesses for literal/src/float.rs: bounded twins of the Verus unit on the real function,
// plus the small helpers.  (Floating point rendering itself is out of reach: see DESIGN 3, C17.)
use super::*;
use std::mem::ManuallyDrop;

fn is_digit(b: u8) -> bool {
    b >= b'0' && b <= b'9'
}

// @ob id=C17.k.strip_underlines_twin props=C17 kind=bounded tier=quick
// @bound byte strings of length <= 5, all byte values
// @clause twin of C17.v.strip_underlines on the compiled function: Some exactly when every '_' has a digit on both sides, and then the value is the input without underscores; yields the concrete counterexample the Verus engine cannot give
// @fns strip_underlines
#[kani::proof]
#[kani::unwind(8)]
fn c17_strip_underlines_twin() {
    let data: [u8; 5] = kani::any();
    let n: usize = kani::any();
    kani::assume(n <= 5);
    let r = ManuallyDrop::new(strip_underlines(&data[..n]));
    let mut legal = true;
    let mut kept = [0u8; 5];
    let mut nk = 0;
    for i in 0..5 {
        if i < n {
            if data[i] == b'_' {
                let l = i > 0 && is_digit(data[i - 1]);
                let rr = i + 1 < n && is_digit(data[i + 1]);
                if !(l && rr) {
                    legal = false;
                }
            } else {
                kept[nk] = data[i];
                nk += 1;
            }
        }
    }
    match &*r {
        Some(v) => {
            assert!(legal);
            assert!(v.len() == nk);
            for i in 0..5 {
                if i < nk {
                    assert!(v[i] == kept[i]);
                }
            }
        }
        None => assert!(!legal),
    }
    kani::cover!(r.is_some() && nk < n);
    kani::cover!(r.is_none());
}

// @ob id=C17.k.trim_slice props=C17,C03 kind=bounded tier=quick
// @bound byte strings of length <= 5, all byte values
// @clause surrounding whitespace: parse_bytes trims exactly the maximal ASCII-whitespace prefix and suffix (nothing inside, nothing else)
// @fns trim_slice
#[kani::proof]
#[kani::unwind(8)]
fn c17_trim_slice() {
    let data: [u8; 5] = kani::any();
    let n: usize = kani::any();
    kani::assume(n <= 5);
    let s = &data[..n];
    let t = trim_slice(s, |b| b.is_ascii_whitespace());
    // Python float(): leading/trailing whitespace; ASCII whitespace = space, \t \n \x0c \r
    let ws = |b: u8| b == b' ' || b == b'\t' || b == b'\n' || b == 0x0c || b == b'\r';
    let mut lo = 0;
    for i in 0..5 {
        if i == lo && i < n && ws(data[i]) {
            lo += 1;
        }
    }
    let mut hi = n;
    for _ in 0..5 {
        if hi > lo && ws(data[hi - 1]) {
            hi -= 1;
        }
    }
    assert!(t.len() == hi - lo);
    if hi > lo {
        assert!(t.as_ptr() == s[lo..].as_ptr());
    }
    kani::cover!(lo > 0 && hi < n && hi > lo);
    kani::cover!(lo == n && n > 0);
}

// @ob id=C17.k.decimal_point_or_empty props=C17,C18 kind=complete tier=quick
// @clause alternate form keeps a bare decimal point only when the precision is zero
// @fns decimal_point_or_empty
#[kani::proof]
fn c17_decimal_point_or_empty() {
    let p: usize = kani::any();
    let alt: bool = kani::any();
    let r = decimal_point_or_empty(p, alt);
    if p == 0 && alt {
        assert!(r.len() == 1 && r.as_bytes()[0] == b'.');
    } else {
        assert!(r.is_empty());
    }
}

// @ob id=C17.k.canary props=C17 kind=canary
// @clause vacuity guard
// @fns strip_underlines
#[kani::proof]
#[kani::unwind(8)]
fn c17_canary() {
    let data: [u8; 3] = kani::any();
    let r = ManuallyDrop::new(strip_underlines(&data));
    assert!(r.is_some());
}
