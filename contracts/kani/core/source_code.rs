// Kani harnesses for core/src/source_code.rs (feature `location`).
use super::*;

// @ob id=C13.k.new_line_start props=C13 kind=complete tier=quick
// @clause the linear-scan cursor leaves its current line exactly when the requested offset is at or past the recorded end of that line (all offsets; a last line without terminator is never left)
// @fns LinearLocatorState::new_line_start
#[kani::proof]
fn c13_new_line_start() {
    let line_end: Option<u32> = kani::any();
    let st = LinearLocatorState {
        line_start: TextSize::new(kani::any()),
        line_end: line_end.map(TextSize::new),
        line_number: OneIndexed::from_zero_indexed(kani::any()),
        cursor: TextSize::new(kani::any()),
        is_ascii: kani::any(),
    };
    let o: u32 = kani::any();
    let r = st.new_line_start(TextSize::new(o));
    match line_end {
        Some(e) if e <= o => assert!(r == Some(TextSize::new(e))),
        _ => assert!(r.is_none()),
    }
    kani::cover!(r.is_some());
}

// ---------------------------------------------------------------------------------------------
// Locators on texts with a CONCRETE line-break layout (symbolic Vec lengths do not terminate, see
// DESIGN 1); every other byte is symbolic.  layout[i] = 0: any ASCII byte other than CR/LF,
// 1: LF, 2: CR, >= 0x80: that literal byte.
use std::mem::ManuallyDrop;

fn text_of_layout<'a>(layout: &[u8], buf: &'a mut [u8; 6]) -> &'a str {
    let n = layout.len();
    for i in 0..6 {
        if i < n {
            match layout[i] {
                0 => {
                    kani::assume(buf[i] < 128 && buf[i] != b'\n' && buf[i] != b'\r');
                }
                1 => buf[i] = b'\n',
                2 => buf[i] = b'\r',
                lit => buf[i] = lit,
            }
        }
    }
    unsafe { std::str::from_utf8_unchecked(&buf[..n]) }
}

fn is_break_end(b: &[u8], e: usize) -> bool {
    0 < e && e <= b.len() && (b[e - 1] == b'\n' || (b[e - 1] == b'\r' && !(e < b.len() && b[e] == b'\n')))
}

/// 1-based (row, column) of a byte offset, from the property statement: CR, LF and CRLF are one
/// line break each, multi-byte characters one column, a leading BOM not counted.
fn expected_location(b: &[u8], o: usize) -> (u32, u32) {
    let mut row = 0;
    let mut line_start = 0;
    for e in 1..7 {
        if e <= o && is_break_end(b, e) {
            row += 1;
            line_start = e;
        }
    }
    let mut from = line_start;
    if line_start == 0 && b.len() >= 3 && b[0] == 0xEF && b[1] == 0xBB && b[2] == 0xBF && o >= 3 {
        from = 3;
    }
    let mut col = 0;
    for i in 0..6 {
        if i >= from && i < o && (b[i] & 0xC0) != 0x80 {
            col += 1;
        }
    }
    (row + 1, col + 1)
}

fn slice_error_fail_plain(_s: &str, _begin: usize, _end: usize) -> ! {
    panic!("str slice index out of range or not on a char boundary")
}
fn count_chars_plain(s: &str) -> usize {
    let b = s.as_bytes();
    assert!(b.len() <= 6);
    let mut n = 0;
    for i in 0..6 {
        if i < b.len() && (b[i] & 0xC0) != 0x80 {
            n += 1;
        }
    }
    n
}
fn fmt_stub(_a: std::fmt::Arguments<'_>) -> String {
    String::new()
}

/// Both locators on one layout: the indexed locator at a symbolic offset, and the linear-scan
/// locator at two symbolic non-decreasing offsets (so that it has to move its cursor), must return
/// the expected 1-based row and column - hence identical results.
fn locators_agree_on(layout: &[u8]) {
    let mut buf: [u8; 6] = kani::any();
    let text = text_of_layout(layout, &mut buf);
    let b = text.as_bytes();
    let n = b.len();
    let o1: usize = kani::any();
    let o2: usize = kani::any();
    kani::assume(o1 <= o2 && o2 <= n && text.is_char_boundary(o1) && text.is_char_boundary(o2));
    // a BOM is skipped by the parser: positions inside it are never located
    let bom = n >= 3 && b[0] == 0xEF;
    kani::assume(!bom || o1 >= 3);
    let mut random = ManuallyDrop::new(RandomLocator::new(text));
    let mut linear = ManuallyDrop::new(LinearLocator::new(text));
    let e1 = expected_location(b, o1);
    let e2 = expected_location(b, o2);
    let r2 = random.locate(TextSize::new(o2 as u32));
    assert!(r2.row.get() == e2.0 && r2.column.get() == e2.1);
    let l1 = linear.locate(TextSize::new(o1 as u32));
    assert!(l1.row.get() == e1.0 && l1.column.get() == e1.1);
    let l2 = linear.locate(TextSize::new(o2 as u32));
    assert!(l2.row.get() == e2.0 && l2.column.get() == e2.1);
}

macro_rules! locators {
    ($name:ident, $($s:expr),*) => {
        #[kani::proof]
        #[kani::unwind(8)]
        #[kani::stub(core::str::slice_error_fail, slice_error_fail_plain)]
        #[kani::stub(core::str::count::count_chars, count_chars_plain)]
        #[kani::stub(alloc::fmt::format, fmt_stub)]
        fn $name() {
            $( locators_agree_on(&$s); )*
        }
    };
}

/// The linear-scan locator asked for ONE symbolic offset on a fresh cursor, and the indexed
/// locator for the same offset: both must give the expected row and column.
fn locate_once_on(layout: &[u8]) {
    let mut buf: [u8; 6] = kani::any();
    let text = text_of_layout(layout, &mut buf);
    let b = text.as_bytes();
    let n = b.len();
    let o: usize = kani::any();
    kani::assume(o <= n && text.is_char_boundary(o));
    let bom = n >= 3 && b[0] == 0xEF;
    kani::assume(!bom || o >= 3);
    let e = expected_location(b, o);
    let mut linear = ManuallyDrop::new(LinearLocator::new(text));
    let l = linear.locate(TextSize::new(o as u32));
    assert!(l.row.get() == e.0 && l.column.get() == e.1);
    let mut random = ManuallyDrop::new(RandomLocator::new(text));
    let r = random.locate(TextSize::new(o as u32));
    assert!(r.row.get() == e.0 && r.column.get() == e.1);
}

macro_rules! locate_once {
    ($name:ident, $s:expr) => {
        #[kani::proof]
        #[kani::unwind(8)]
        #[kani::stub(core::str::slice_error_fail, slice_error_fail_plain)]
        #[kani::stub(core::str::count::count_chars, count_chars_plain)]
        #[kani::stub(alloc::fmt::format, fmt_stub)]
        fn $name() {
            locate_once_on(&$s);
        }
    };
}

// @ob id=C13.k.locate_once_ascii props=C13 kind=bounded tier=quick timeout=900
// @bound texts with the layout [0, 1, 0] (x LF x, x symbolic ASCII); every offset; one query on a fresh linear-scan cursor
// @clause the incremental (linear-scan) locator and the indexed locator return identical results: the 1-based row and character column of the offset (the linear locator's own debug cross-check against the indexed one is compiled in and proved not to fire)
// @fns LinearLocator::locate LinearLocator::locate_inner LinearLocatorState::init LinearLocatorState::new_line_start RandomLocator::locate RandomLocator::new
locate_once!(c13_locate_once_ascii, [0, 1, 0]);

// @ob id=C13.k.locate_once_utf8 props=C13 kind=bounded tier=quick timeout=900
// @bound texts with the layout [0xC3, 0xA9, 1, 0] (a two-byte character, LF, x); every offset on a character boundary; one query on a fresh cursor
// @clause multi-byte characters count as one column, identically in both locators
// @fns LinearLocator::locate LinearLocator::locate_inner RandomLocator::locate
locate_once!(c13_locate_once_utf8, [0xC3, 0xA9, 1, 0]);

// @ob id=C13.k.locate_once_bom props=C13 kind=bounded tier=quick timeout=900
// @bound texts with the layout [0xEF, 0xBB, 0xBF, 0, 1, 0] (BOM x LF x); every offset outside the BOM; one query on a fresh cursor
// @clause a leading BOM is not counted as a column and does not shift where line 1 ends, identically in both locators
// @fns LinearLocator::locate LinearLocator::locate_inner LinearLocatorState::init RandomLocator::locate
locate_once!(c13_locate_once_bom, [0xEF, 0xBB, 0xBF, 0, 1, 0]);

// @ob id=C13.k.locators_agree_t1 props=C13 kind=bounded tier=thorough timeout=2400
// @bound texts with the layout [1, 0] (LF x); all pairs of non-decreasing offsets (the linear cursor has to move onto the second line)
// @clause linear-scan and indexed locator agree also after the linear cursor moved forward from an earlier offset
// @fns LinearLocator::locate LinearLocator::locate_inner RandomLocator::locate
locators!(c13_locators_agree_t1, [1, 0]);

// @ob id=C13.k.locators_agree_t2 props=C13 kind=bounded tier=thorough timeout=2400
// @bound texts with the layout [2, 1, 1] (CR LF LF); all pairs of non-decreasing offsets
// @clause CR LF counts as one line break in both locators, also when the cursor crosses it
// @fns LinearLocator::locate LinearLocator::locate_inner RandomLocator::locate
locators!(c13_locators_agree_t2, [2, 1, 1]);

// @ob id=C13.k.locators_agree_t3 props=C13 kind=bounded tier=thorough timeout=2400
// @bound texts with the layout [0xEF, 0xBB, 0xBF, 0, 1, 0] (BOM x LF x); all pairs of non-decreasing offsets outside the BOM
// @clause a leading BOM is not counted as a column, identically in both locators
// @fns LinearLocator::locate LinearLocator::locate_inner LinearLocatorState::init RandomLocator::locate
locators!(c13_locators_agree_t3, [0xEF, 0xBB, 0xBF, 0, 1, 0]);

// @ob id=C13.k.core_canary props=C13 kind=canary
// @clause vacuity guard
// @fns RandomLocator::locate
#[kani::proof]
#[kani::unwind(8)]
#[kani::stub(core::str::slice_error_fail, slice_error_fail_plain)]
#[kani::stub(core::str::count::count_chars, count_chars_plain)]
fn c13_core_canary() {
    let mut buf: [u8; 6] = kani::any();
    let text = text_of_layout(&[0, 1, 0], &mut buf);
    let mut random = ManuallyDrop::new(RandomLocator::new(text));
    let r = random.locate(TextSize::new(kani::any::<u8>() as u32 % 4));
    assert!(r.row.get() == 1);
}
