// Kani harnesses for core/src/source_code.rs (feature `location`).
use super::*;

// @ob id=C13.k.new_line_start props=C13 kind=complete tier=quick
// @clause the linear-scan cursor leaves its current line exactly when the requested offset is at or past the recorded end of that line (all offsets; a last line without terminator is never left)
// @fns LinearLocatorState::new_line_start
#[kani::proof]
fn c13_new_line_start() {
    let line_end: Option<u32> = kani::any();
    let st = LinearLocatorState {
        line_start: TextSize::new(kani::any()),
        line_end: line_end.map(TextSize::new),
        line_number: OneIndexed::from_zero_indexed(kani::any()),
        cursor: TextSize::new(kani::any()),
        is_ascii: kani::any(),
    };
    let o: u32 = kani::any();
    let r = st.new_line_start(TextSize::new(o));
    match line_end {
        Some(e) if e <= o => assert!(r == Some(TextSize::new(e))),
        _ => assert!(r.is_none()),
    }
    kani::cover!(r.is_some());
}
