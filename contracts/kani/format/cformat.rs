// Kani harnesses for format/src/cformat.rs (printf-style formatting).
// The parser functions are generic over the character iterator, so the harnesses feed them a
// fixed-capacity array iterator with fully symbolic characters: no String is involved.
use super::*;
use std::mem::ManuallyDrop;

const N: usize = 12;

#[derive(Clone)]
struct Arr {
    items: [char; N],
    len: usize,
    i: usize,
}
impl Iterator for Arr {
    type Item = char;
    fn next(&mut self) -> Option<char> {
        if self.i < self.len && self.i < N {
            let c = self.items[self.i];
            self.i += 1;
            Some(c)
        } else {
            None
        }
    }
}

fn stream(items: [char; N], len: usize) -> ParseIter<Arr> {
    Arr { items, len, i: 0 }.enumerate().peekable()
}

fn fmt_stub(_a: std::fmt::Arguments<'_>) -> String {
    String::new()
}

// @ob id=C19.k.parse_flags_step props=C19,C03 kind=complete tier=quick
// @clause flags in any order and repetition: each of # 0 - space + sets its own flag and is consumed; the first other character ends the flags and is left in place (two symbolic characters, so repetition and order are covered; all chars)
// @fns parse_flags
#[kani::proof]
#[kani::unwind(5)]
fn c19_parse_flags_step() {
    let c0: char = kani::any();
    let c1: char = kani::any();
    let mut items = ['x'; N];
    items[0] = c0;
    items[1] = c1;
    let mut it = stream(items, 3);
    let f = parse_flags(&mut it);
    let flag_of = |c: char| match c {
        '#' => Some(CConversionFlags::ALTERNATE_FORM),
        '0' => Some(CConversionFlags::ZERO_PAD),
        '-' => Some(CConversionFlags::LEFT_ADJUST),
        ' ' => Some(CConversionFlags::BLANK_SIGN),
        '+' => Some(CConversionFlags::SIGN_CHAR),
        _ => None,
    };
    let next = it.peek().map(|x| *x);
    match (flag_of(c0), flag_of(c1)) {
        (None, _) => {
            assert!(f.is_empty());
            assert!(next == Some((0, c0)));
        }
        (Some(a), None) => {
            assert!(f == a);
            assert!(next == Some((1, c1)));
        }
        (Some(a), Some(b)) => {
            assert!(f == a | b);
            assert!(next == Some((2, 'x')));
        }
    }
    kani::cover!(flag_of(c0).is_some() && flag_of(c0) == flag_of(c1));
    kani::cover!(flag_of(c0).is_some() && flag_of(c1).is_some() && flag_of(c0) != flag_of(c1));
}

// @ob id=C19.k.sign_string props=C19 kind=complete tier=quick
// @clause sign of non-negative numbers: '+' flag gives "+", else blank flag gives " ", else nothing ('+' overrides blank), for all flag sets
// @fns CConversionFlags::sign_string
#[kani::proof]
fn c19_sign_string() {
    let bits: u32 = kani::any();
    let f = CConversionFlags::from_bits_truncate(bits);
    let s = f.sign_string();
    if bits & 0b1_0000 != 0 {
        assert!(s.len() == 1 && s.as_bytes()[0] == b'+');
    } else if bits & 0b1000 != 0 {
        assert!(s.len() == 1 && s.as_bytes()[0] == b' ');
    } else {
        assert!(s.is_empty());
    }
}

// @ob id=C19.k.consume_length props=C19,C03 kind=complete tier=quick
// @clause ignored length modifiers: exactly one of h, l, L is skipped; anything else (and a second modifier) is left in place (all chars)
// @fns consume_length
#[kani::proof]
#[kani::unwind(5)]
fn c19_consume_length() {
    let c0: char = kani::any();
    let c1: char = kani::any();
    let mut items = ['x'; N];
    items[0] = c0;
    items[1] = c1;
    let mut it = stream(items, 2);
    consume_length(&mut it);
    let next = it.peek().map(|x| *x);
    if c0 == 'h' || c0 == 'l' || c0 == 'L' {
        assert!(next == Some((1, c1)));
    } else {
        assert!(next == Some((0, c0)));
    }
}

// @ob id=C19.k.parse_format_type props=C19,C03 kind=complete tier=quick
// @clause conversion characters: exactly d i u o x X e E f F g G c r s b a are accepted with their Python meaning and echoed back; every other character is UnsupportedFormatChar(c) with that character's index; a missing conversion character is IncompleteFormat (all chars, all positions)
// @fns parse_format_type
#[kani::proof]
#[kani::unwind(5)]
fn c19_parse_format_type() {
    let c: char = kani::any();
    let skip: usize = kani::any();
    kani::assume(skip <= 2);
    let empty: bool = kani::any();
    let mut items = ['1'; N];
    items[skip] = c;
    let mut it = stream(items, if empty { skip } else { skip + 1 });
    // advance to the position of the conversion character
    let mut k = 0;
    while k < 2 {
        if k < skip {
            it.next();
        }
        k += 1;
    }
    let r = ManuallyDrop::new(parse_format_type(&mut it));
    use CFloatType::*;
    use CNumberType::*;
    if empty {
        assert!(matches!(&*r, Err((CFormatErrorType::IncompleteFormat, _))));
        return;
    }
    let ok = match (&*r, c) {
        (Ok((CFormatType::Number(Decimal), ch)), 'd' | 'i' | 'u') => *ch == c,
        (Ok((CFormatType::Number(Octal), ch)), 'o') => *ch == c,
        (Ok((CFormatType::Number(Hex(Case::Lower)), ch)), 'x') => *ch == c,
        (Ok((CFormatType::Number(Hex(Case::Upper)), ch)), 'X') => *ch == c,
        (Ok((CFormatType::Float(Exponent(Case::Lower)), ch)), 'e') => *ch == c,
        (Ok((CFormatType::Float(Exponent(Case::Upper)), ch)), 'E') => *ch == c,
        (Ok((CFormatType::Float(PointDecimal(Case::Lower)), ch)), 'f') => *ch == c,
        (Ok((CFormatType::Float(PointDecimal(Case::Upper)), ch)), 'F') => *ch == c,
        (Ok((CFormatType::Float(General(Case::Lower)), ch)), 'g') => *ch == c,
        (Ok((CFormatType::Float(General(Case::Upper)), ch)), 'G') => *ch == c,
        (Ok((CFormatType::Character, ch)), 'c') => *ch == c,
        (Ok((CFormatType::String(CFormatConversion::Repr), ch)), 'r') => *ch == c,
        (Ok((CFormatType::String(CFormatConversion::Str), ch)), 's') => *ch == c,
        (Ok((CFormatType::String(CFormatConversion::Bytes), ch)), 'b') => *ch == c,
        (Ok((CFormatType::String(CFormatConversion::Ascii), ch)), 'a') => *ch == c,
        (Err((CFormatErrorType::UnsupportedFormatChar(ch), idx)), _) => {
            *ch == c
                && *idx == skip
                && !matches!(c, 'd' | 'i' | 'u' | 'o' | 'x' | 'X' | 'e' | 'E' | 'f' | 'F' | 'g' | 'G' | 'c' | 'r' | 's' | 'b' | 'a')
        }
        _ => false,
    };
    assert!(ok);
    kani::cover!(r.is_err());
    kani::cover!(r.is_ok());
}

// @ob id=C19.k.parse_quantity props=C19,C03 kind=bounded tier=quick
// @bound at most 11 decimal digits (one more than i32::MAX has), all digit values symbolic
// @clause width and precision: a run of decimal digits has the value of its digits; '*' means "from the values tuple"; a value above i32::MAX is IntTooBig at the index of the digit that overflows, and the checked arithmetic never wraps; the first non-digit is left in place
// @fns parse_quantity
#[kani::proof]
#[kani::unwind(14)]
fn c19_parse_quantity() {
    let mut items = ['x'; N];
    let nd: usize = kani::any();
    kani::assume(nd <= 11);
    let mut k = 0;
    while k < 11 {
        if k < nd {
            let d: u8 = kani::any();
            kani::assume(d < 10);
            items[k] = (b'0' + d) as char;
        }
        k += 1;
    }
    let star: bool = kani::any();
    if star {
        items[0] = '*';
    }
    let mut it = stream(items, N);
    let r = ManuallyDrop::new(parse_quantity(&mut it));
    if star {
        assert!(matches!(&*r, Ok(Some(CFormatQuantity::FromValuesTuple))));
        assert!(it.peek().map(|x| x.0) == Some(1));
        return;
    }
    // value of the digits as a mathematical integer (fits u64: at most 11 digits)
    let mut v: u64 = 0;
    let mut first_over: Option<usize> = None;
    let mut j = 0;
    while j < 11 {
        if j < nd {
            v = v * 10 + (items[j] as u64 - '0' as u64);
            if v > i32::MAX as u64 && first_over.is_none() {
                first_over = Some(j);
            }
        }
        j += 1;
    }
    match &*r {
        Ok(None) => assert!(nd == 0),
        Ok(Some(CFormatQuantity::Amount(a))) => {
            assert!(nd > 0 && first_over.is_none());
            assert!(*a as u64 == v);
            assert!(it.peek().map(|x| x.0) == Some(nd));
        }
        Ok(Some(CFormatQuantity::FromValuesTuple)) => assert!(false),
        Err((CFormatErrorType::IntTooBig, idx)) => {
            assert!(first_over == Some(*idx));
        }
        Err(_) => assert!(false),
    }
    kani::cover!(first_over.is_some());
    kani::cover!(nd == 10 && first_over.is_none());
}

fn spec_for_bytes(width: Option<usize>, prec: Option<usize>, left: bool) -> CFormatSpec {
    CFormatSpec {
        mapping_key: None,
        flags: if left { CConversionFlags::LEFT_ADJUST } else { CConversionFlags::empty() },
        min_field_width: width.map(CFormatQuantity::Amount),
        precision: prec.map(|p| CFormatPrecision::Quantity(CFormatQuantity::Amount(p))),
        format_type: CFormatType::String(CFormatConversion::Bytes),
        format_char: 'b',
    }
}

// @ob id=C19.k.format_bytes props=C19,C03 kind=bounded tier=quick
// @bound byte strings of length <= 3, width <= 4, precision <= 4 (all symbolic)
// @clause formatting a byte string: precision truncates (a '.' without digits is the precision 0), the result is padded with spaces to the width on the left (on the right with '-'), never shortened by the width, and no width/length combination panics (width - len must not underflow)
// @fns CFormatSpec::format_bytes
#[kani::proof]
#[kani::unwind(7)]
fn c19_format_bytes() {
    let width: Option<usize> = kani::any();
    if let Some(w) = width {
        kani::assume(w <= 4);
    }
    let prec: Option<usize> = kani::any();
    if let Some(p) = prec {
        kani::assume(p <= 4);
    }
    let data: [u8; 3] = kani::any();
    let len: usize = kani::any();
    kani::assume(len <= 3);
    let left: bool = kani::any();
    // "%.s": a '.' without digits is the precision 0
    let dot: bool = kani::any();
    let mut spec0 = spec_for_bytes(width, prec, left);
    if dot {
        spec0.precision = Some(CFormatPrecision::Dot);
    }
    let prec = if dot { Some(0) } else { prec };
    let spec = ManuallyDrop::new(spec0);
    let out = ManuallyDrop::new(spec.format_bytes(&data[..len]));
    let shown = match prec {
        Some(p) if p < len => p,
        _ => len,
    };
    let total = match width {
        Some(w) if w > shown => w,
        _ => shown,
    };
    assert!(out.len() == total);
    let pad = total - shown;
    let mut i = 0;
    while i < 4 {
        if i < total {
            let expect = if left {
                if i < shown { data[i] } else { b' ' }
            } else if i < pad {
                b' '
            } else {
                data[i - pad]
            };
            assert!(out[i] == expect);
        }
        i += 1;
    }
    kani::cover!(width.is_some() && width.unwrap() < shown);
    kani::cover!(pad > 0 && left);
    kani::cover!(dot && len > 0);
}

// @ob id=C19.k.check_specifiers props=C19 kind=bounded tier=quick
// @bound templates of 3 parts (literal parts do not count, so this covers 0..3 specifiers in any position)
// @clause specifier bookkeeping: the count of conversion specifiers and whether they use mapping keys; mixing keyed and unkeyed specifiers is rejected
// @fns CFormatStrOrBytes::check_specifiers CFormatPart::is_specifier CFormatPart::has_key
#[kani::proof]
#[kani::unwind(6)]
fn c19_check_specifiers() {
    // kinds: 0 literal, 1 spec without key, 2 spec with key; always three parts (a literal part
    // does not count, so shorter templates are covered too) - the Vec has a concrete shape
    let kinds: [u8; 3] = [kani::any(), kani::any(), kani::any()];
    kani::assume(kinds[0] < 3 && kinds[1] < 3 && kinds[2] < 3);
    let mk = |k: u8| match k {
        0 => CFormatPart::Literal(Vec::new()),
        1 => CFormatPart::Spec(spec_for_bytes(None, None, false)),
        _ => {
            let mut s = spec_for_bytes(None, None, false);
            s.mapping_key = Some(String::new());
            CFormatPart::Spec(s)
        }
    };
    let parts: Vec<(usize, CFormatPart<Vec<u8>>)> = vec![(0, mk(kinds[0])), (1, mk(kinds[1])), (2, mk(kinds[2]))];
    let f = ManuallyDrop::new(CFormatStrOrBytes { parts });
    let r = f.check_specifiers();
    let mut count = 0;
    let mut keyed = 0;
    let mut j = 0;
    while j < 3 {
        if kinds[j] != 0 {
            count += 1;
            if kinds[j] == 2 {
                keyed += 1;
            }
        }
        j += 1;
    }
    if keyed != 0 && keyed != count {
        assert!(r.is_none());
    } else {
        assert!(r == Some((count, keyed > 0)));
    }
    kani::cover!(r.is_none());
    kani::cover!(r == Some((3, true)));
}

// @ob id=C19.k.canary props=C19 kind=canary
// @clause vacuity guard
// @fns parse_quantity
#[kani::proof]
#[kani::unwind(14)]
fn c19_canary() {
    let mut items = ['x'; N];
    let d: u8 = kani::any();
    kani::assume(d < 10);
    items[0] = (b'0' + d) as char;
    let mut it = stream(items, N);
    let r = ManuallyDrop::new(parse_quantity(&mut it));
    assert!(!matches!(&*r, Ok(Some(CFormatQuantity::Amount(7)))));
}

/// One character of the specifier alphabet.
fn any_spec_char() -> char {
    let k: u8 = kani::any();
    kani::assume(k < 13);
    match k {
        0 => '-',
        1 => '+',
        2 => ' ',
        3 => '#',
        4 => '0',
        5 => '7',
        6 => '*',
        7 => '.',
        8 => 'h',
        9 => 'd',
        10 => 's',
        11 => 'x',
        _ => 'z',
    }
}

// @ob id=C19.k.spec_parse props=C19,C03 kind=bounded tier=quick timeout=600
// @bound specifiers of at most 6 characters after the '%', over the alphabet - + space # 0 7 * . h d s x z (no mapping key)
// @clause a conversion specifier is split as Python splits it: flags (any order, repetition) then width (digits or *) then optional .precision (digits, * or nothing = 0) then at most one length modifier then the conversion character; what follows is left unread; a missing conversion character is IncompleteFormat and an unsupported one UnsupportedFormatChar with its index
// @fns CFormatSpec::parse parse_spec_mapping_key parse_flags parse_quantity parse_precision consume_length parse_format_type
#[kani::proof]
#[kani::unwind(9)]
fn c19_spec_parse() {
    let mut items = ['%'; N];
    let len: usize = kani::any();
    kani::assume(len <= 6);
    for i in 0..6 {
        if i < len {
            items[i] = any_spec_char();
        }
    }
    let mut it = stream(items, len);
    let r = ManuallyDrop::new(CFormatSpec::parse(&mut it));
    // ---- reference split, from the Python documentation of printf-style formatting
    let at = |i: usize| if i < len { Some(items[i]) } else { None };
    let mut i = 0usize;
    let mut flags = CConversionFlags::empty();
    for _ in 0..7 {
        match at(i) {
            Some('-') => { flags |= CConversionFlags::LEFT_ADJUST; i += 1; }
            Some('+') => { flags |= CConversionFlags::SIGN_CHAR; i += 1; }
            Some(' ') => { flags |= CConversionFlags::BLANK_SIGN; i += 1; }
            Some('#') => { flags |= CConversionFlags::ALTERNATE_FORM; i += 1; }
            Some('0') => { flags |= CConversionFlags::ZERO_PAD; i += 1; }
            _ => {}
        }
    }
    // width
    let mut width: Option<Option<usize>> = None; // Some(None) = '*'
    if at(i) == Some('*') {
        width = Some(None);
        i += 1;
    } else {
        let mut v = 0usize;
        let mut any = false;
        for _ in 0..7 {
            match at(i) {
                Some(c) if c == '0' || c == '7' => { v = v * 10 + (c as usize - '0' as usize); any = true; i += 1; }
                _ => {}
            }
        }
        if any { width = Some(Some(v)); }
    }
    // precision
    let mut prec: Option<Option<Option<usize>>> = None; // Some(None) = bare '.', Some(Some(None)) = '.*'
    if at(i) == Some('.') {
        i += 1;
        if at(i) == Some('*') {
            prec = Some(Some(None));
            i += 1;
        } else {
            let mut v = 0usize;
            let mut any = false;
            for _ in 0..7 {
                match at(i) {
                    Some(c) if c == '0' || c == '7' => { v = v * 10 + (c as usize - '0' as usize); any = true; i += 1; }
                    _ => {}
                }
            }
            prec = if any { Some(Some(Some(v))) } else { Some(None) };
        }
    }
    if at(i) == Some('h') {
        i += 1;
    }
    let conv = at(i);
    match (&*r, conv) {
        (Err((CFormatErrorType::IncompleteFormat, _)), None) => {}
        (Err((CFormatErrorType::UnsupportedFormatChar(c), idx)), Some(k)) => {
            assert!(*c == k && *idx == i);
            assert!(!matches!(k, 'd' | 's' | 'x'));
        }
        (Ok(spec), Some(k)) => {
            assert!(matches!(k, 'd' | 's' | 'x'));
            assert!(spec.format_char == k);
            assert!(spec.flags == flags);
            assert!(spec.mapping_key.is_none());
            match (&spec.min_field_width, width) {
                (None, None) => {}
                (Some(CFormatQuantity::FromValuesTuple), Some(None)) => {}
                (Some(CFormatQuantity::Amount(a)), Some(Some(v))) => assert!(*a == v),
                _ => assert!(false),
            }
            match (&spec.precision, prec) {
                (None, None) => {}
                (Some(CFormatPrecision::Dot), Some(None)) => {}
                (Some(CFormatPrecision::Quantity(CFormatQuantity::FromValuesTuple)), Some(Some(None))) => {}
                (Some(CFormatPrecision::Quantity(CFormatQuantity::Amount(a))), Some(Some(Some(v)))) => assert!(*a == v),
                _ => assert!(false),
            }
            match (&spec.format_type, k) {
                (CFormatType::Number(CNumberType::Decimal), 'd') => {}
                (CFormatType::String(CFormatConversion::Str), 's') => {}
                (CFormatType::Number(CNumberType::Hex(Case::Lower)), 'x') => {}
                _ => assert!(false),
            }
            // exactly the specifier was consumed
            assert!(it.peek().map(|x| x.0) == if i + 1 < len { Some(i + 1) } else { None });
        }
        _ => assert!(false),
    }
    kani::cover!(matches!(&*r, Ok(s) if s.precision.is_some() && s.min_field_width.is_some() && !s.flags.is_empty()));
    kani::cover!(matches!(&*r, Err((CFormatErrorType::UnsupportedFormatChar(_), 3))));
    kani::cover!(matches!(&*r, Err((CFormatErrorType::IncompleteFormat, _))));
}

// ---------------------------------------------------------------------------------------------
// Padding helpers (modular: the fill string generator is replaced by a recorder that returns a
// one-character marker, so that no String of symbolic length is ever built)

static mut CFS_CALLS: u32 = 0;
static mut CFS_CHAR: char = '\0';
static mut CFS_NEEDED: usize = 0;

fn compute_fill_recorder(fill_char: char, fill_chars_needed: usize) -> String {
    unsafe {
        CFS_CALLS += 1;
        CFS_CHAR = fill_char;
        CFS_NEEDED = fill_chars_needed;
    }
    if fill_chars_needed == 0 {
        String::new()
    } else {
        String::from("#")
    }
}

fn spec_with_width(width: Option<usize>, left: bool) -> CFormatSpec {
    CFormatSpec {
        mapping_key: None,
        flags: if left { CConversionFlags::LEFT_ADJUST } else { CConversionFlags::empty() },
        min_field_width: width.map(CFormatQuantity::Amount),
        precision: None,
        format_type: CFormatType::String(CFormatConversion::Str),
        format_char: 's',
    }
}

/// fill_string on one concrete text (so that its character count is concrete).
fn fill_string_case(text: &'static str, chars: usize) {
    let width: Option<usize> = kani::any();
    let left: bool = kani::any();
    let prefix: Option<usize> = kani::any();
    if let Some(p) = prefix {
        kani::assume(p <= 3);
    }
    let fill_char = if kani::any() { ' ' } else { '0' };
    let spec = ManuallyDrop::new(spec_with_width(width, left));
    unsafe {
        CFS_CALLS = 0;
    }
    let out = ManuallyDrop::new(spec.fill_string(String::from(text), fill_char, prefix));
    let shown = chars + prefix.unwrap_or(0);
    let needed = match width {
        Some(w) if w > shown => w - shown,
        _ => 0,
    };
    unsafe {
        assert!(CFS_CALLS == 1);
        assert!(CFS_CHAR == fill_char);
        // Python: pad to the field width counted in CHARACTERS, the sign/prefix already written counts too
        assert!(CFS_NEEDED == needed);
    }
    let ob = out.as_bytes();
    let tb = text.as_bytes();
    if needed == 0 {
        assert!(ob.len() == tb.len());
    } else {
        assert!(ob.len() == tb.len() + 1);
        // '-' puts the padding on the right, otherwise it goes on the left
        if left {
            assert!(ob[ob.len() - 1] == b'#' && ob[0] == tb[0]);
        } else {
            assert!(ob[0] == b'#' && ob[1] == tb[0]);
        }
    }
}

// @ob id=C19.k.fill_string props=C19,C03 kind=bounded tier=quick timeout=600
// @bound the texts "ab" and "é" (a two-byte character = ONE column); every width, '-' flag, fill character and 0-3 already written prefix characters
// @clause width padding: the text is padded to the field width counted in characters (not bytes), characters of a sign/prefix already written count towards the width, the padding goes to the left - to the right with the '-' flag - and a width smaller than the text never truncates; no width makes it panic
// @fns CFormatSpec::fill_string
#[kani::proof]
#[kani::unwind(10)]
#[kani::stub(CFormatSpec::compute_fill_string, compute_fill_recorder)]
#[kani::stub(alloc::fmt::format, fmt_concat2)]
fn c19_fill_string() {
    fill_string_case("ab", 2);
    fill_string_case("\u{e9}", 1);
}

/// format!("{a}{b}") of two pieces: stand-in for alloc::fmt::format that goes through a fixed
/// buffer writer (same text; avoids String growth of symbolic size inside core::fmt).
fn fmt_concat2(args: std::fmt::Arguments<'_>) -> String {
    struct B {
        b: [u8; 8],
        n: usize,
    }
    impl std::fmt::Write for B {
        fn write_str(&mut self, s: &str) -> std::fmt::Result {
            let by = s.as_bytes();
            assert!(by.len() <= 8);
            for i in 0..8 {
                if i < by.len() {
                    if self.n < 8 {
                        self.b[self.n] = by[i];
                    }
                    self.n += 1;
                }
            }
            Ok(())
        }
    }
    let mut w = B { b: [0; 8], n: 0 };
    let _ = std::fmt::write(&mut w, args);
    assert!(w.n <= 8);
    let mut out = String::with_capacity(8);
    for i in 0..8 {
        if i < w.n {
            // pieces are valid UTF-8 copied byte-wise: rebuild through from_utf8 at the end
        }
    }
    out.push_str(unsafe { std::str::from_utf8_unchecked(&w.b[..w.n]) });
    out
}
