// Kani harnesses for format/src/format.rs (format-spec mini-language and str.format templates).
use super::*;
use std::mem::ManuallyDrop;

/// "<c>9" as a str, for any char c (UTF-8 encoded into a caller-provided buffer).
fn one_char_then_9(c: char, buf: &mut [u8; 5]) -> &str {
    let l = c.encode_utf8(&mut buf[..4]).len();
    buf[l] = b'9';
    // the buffer holds a valid encoding followed by an ASCII byte
    unsafe { std::str::from_utf8_unchecked(&buf[..l + 1]) }
}

fn any_case() -> Case {
    if kani::any() {
        Case::Lower
    } else {
        Case::Upper
    }
}

fn any_format_type() -> FormatType {
    let k: u8 = kani::any();
    kani::assume(k < 11);
    match k {
        0 => FormatType::String,
        1 => FormatType::Binary,
        2 => FormatType::Character,
        3 => FormatType::Decimal,
        4 => FormatType::Octal,
        5 => FormatType::Number(any_case()),
        6 => FormatType::Hex(any_case()),
        7 => FormatType::Exponent(any_case()),
        8 => FormatType::GeneralFormat(any_case()),
        9 => FormatType::FixedPoint(any_case()),
        _ => FormatType::Percentage,
    }
}

// @ob id=C18.k.align_table props=C18,C03 kind=complete tier=quick
// @clause alignment characters: exactly < > = ^ are alignments, with Python's meaning (all chars)
// @fns FormatAlign::from_char
#[kani::proof]
fn c18_align_table() {
    let c: char = kani::any();
    let r = FormatAlign::from_char(c);
    let expect = match c {
        '<' => Some(FormatAlign::Left),
        '>' => Some(FormatAlign::Right),
        '=' => Some(FormatAlign::AfterSign),
        '^' => Some(FormatAlign::Center),
        _ => None,
    };
    assert!(r == expect);
}

// @ob id=C18.k.conversion_table props=C18,C20 kind=complete tier=quick
// @clause conversion characters: s r a (and b) select their conversion, every other character none (all chars)
// @fns FormatConversion::from_char
#[kani::proof]
fn c18_conversion_table() {
    let c: char = kani::any();
    let r = FormatConversion::from_char(c);
    let expect = match c {
        's' => Some(FormatConversion::Str),
        'r' => Some(FormatConversion::Repr),
        'a' => Some(FormatConversion::Ascii),
        'b' => Some(FormatConversion::Bytes),
        _ => None,
    };
    assert!(r == expect);
}

// @ob id=C18.k.one_char_fields props=C18,C03 kind=complete tier=quick
// @clause the one-character fields of a format spec (alignment, sign + - space, alternate form #, zero flag 0, grouping , _): each accepts exactly Python's characters, consumes exactly that one character (cut on a character boundary, also for multi-byte characters) and otherwise leaves the text untouched (all chars)
// @fns FormatAlign::parse FormatSign::parse FormatGrouping::parse parse_alternate_form parse_zero
#[kani::proof]
#[kani::unwind(6)]
fn c18_one_char_fields() {
    let c: char = kani::any();
    let mut buf = [0u8; 5];
    let text = one_char_then_9(c, &mut buf);
    let full = text.len();
    let rest_len_if_taken = full - c.len_utf8();
    let which: u8 = kani::any();
    kani::assume(which < 5);
    let (taken, rest): (bool, &str) = match which {
        0 => {
            let (a, r) = FormatAlign::parse(text);
            assert!(a == FormatAlign::from_char(c));
            (a.is_some(), r)
        }
        1 => {
            let (s, r) = FormatSign::parse(text);
            let e = match c {
                '-' => Some(FormatSign::Minus),
                '+' => Some(FormatSign::Plus),
                ' ' => Some(FormatSign::MinusOrSpace),
                _ => None,
            };
            assert!(s == e);
            (s.is_some(), r)
        }
        2 => {
            let (g, r) = FormatGrouping::parse(text);
            let e = match c {
                '_' => Some(FormatGrouping::Underscore),
                ',' => Some(FormatGrouping::Comma),
                _ => None,
            };
            assert!(g == e);
            (g.is_some(), r)
        }
        3 => {
            let (a, r) = parse_alternate_form(text);
            assert!(a == (c == '#'));
            (a, r)
        }
        _ => {
            let (z, r) = parse_zero(text);
            assert!(z == (c == '0'));
            (z, r)
        }
    };
    if taken {
        assert!(rest.len() == rest_len_if_taken);
        assert!(rest.as_bytes()[rest.len() - 1] == b'9');
    } else {
        assert!(rest.len() == full);
    }
    kani::cover!(taken);
    kani::cover!(!taken && c.len_utf8() == 3);
}

// @ob id=C18.k.type_table props=C18,C03 kind=complete tier=quick
// @clause presentation types: exactly s b c d o n N x X e E f F g G % are accepted (N is this implementation's documented extra), each consumes one character, and converting the parsed type back to its character gives the same character (all chars)
// @fns FormatType::parse char::from(&FormatType)
#[kani::proof]
#[kani::unwind(6)]
fn c18_type_table() {
    let c: char = kani::any();
    let mut buf = [0u8; 5];
    let text = one_char_then_9(c, &mut buf);
    let (t, rest) = FormatType::parse(text);
    let known = matches!(c, 's' | 'b' | 'c' | 'd' | 'o' | 'n' | 'N' | 'x' | 'X' | 'e' | 'E' | 'f' | 'F' | 'g' | 'G' | '%');
    match &t {
        Some(ft) => {
            assert!(known);
            assert!(char::from(ft) == c);
            assert!(rest.len() == 1);
            let expect_ok = match (ft, c) {
                (FormatType::String, 's') | (FormatType::Binary, 'b') | (FormatType::Character, 'c') => true,
                (FormatType::Decimal, 'd') | (FormatType::Octal, 'o') | (FormatType::Percentage, '%') => true,
                (FormatType::Number(Case::Lower), 'n') | (FormatType::Number(Case::Upper), 'N') => true,
                (FormatType::Hex(Case::Lower), 'x') | (FormatType::Hex(Case::Upper), 'X') => true,
                (FormatType::Exponent(Case::Lower), 'e') | (FormatType::Exponent(Case::Upper), 'E') => true,
                (FormatType::FixedPoint(Case::Lower), 'f') | (FormatType::FixedPoint(Case::Upper), 'F') => true,
                (FormatType::GeneralFormat(Case::Lower), 'g') | (FormatType::GeneralFormat(Case::Upper), 'G') => true,
                _ => false,
            };
            assert!(expect_ok);
        }
        None => {
            assert!(!known);
            assert!(rest.len() == text.len());
        }
    }
    kani::cover!(t.is_some());
}

// @ob id=C18.k.type_roundtrip props=C18 kind=complete tier=quick
// @clause every presentation type has a distinct character that parses back to it (all 16 types)
// @fns FormatType::parse char::from(&FormatType)
#[kani::proof]
#[kani::unwind(6)]
fn c18_type_roundtrip() {
    let ft = any_format_type();
    let c = char::from(&ft);
    let mut buf = [0u8; 5];
    let text = one_char_then_9(c, &mut buf);
    let (t, _) = FormatType::parse(text);
    assert!(t == Some(ft));
}

fn spec_with(format_type: Option<FormatType>, grouping: Option<FormatGrouping>) -> FormatSpec {
    FormatSpec {
        conversion: None,
        fill: None,
        align: None,
        sign: None,
        alternate_form: kani::any(),
        width: None,
        grouping_option: grouping,
        precision: None,
        format_type,
    }
}

fn any_grouping() -> Option<FormatGrouping> {
    let k: u8 = kani::any();
    kani::assume(k < 3);
    match k {
        0 => None,
        1 => Some(FormatGrouping::Comma),
        _ => Some(FormatGrouping::Underscore),
    }
}

// @ob id=C18.k.grouping_validation props=C18 kind=complete tier=quick
// @clause validation of grouping vs type fails whenever Python raises: ',' is rejected with s c b o x X n (and N), '_' with s c n (and N), and accepted for d e E f F g G % and the default type (both default types, all combinations)
// @fns FormatSpec::validate_format
#[kani::proof]
#[kani::unwind(4)]
fn c18_grouping_validation() {
    let has_type: bool = kani::any();
    let ft = if has_type { Some(any_format_type()) } else { None };
    let g = any_grouping();
    let int_default: bool = kani::any();
    let spec = ManuallyDrop::new(spec_with(ft, g));
    let default = if int_default { FormatType::Decimal } else { FormatType::FixedPoint(Case::Lower) };
    let r = ManuallyDrop::new(spec.validate_format(default));
    // effective type character
    let ch = match &spec.format_type {
        Some(t) => char::from(t),
        None => if int_default { 'd' } else { 'f' },
    };
    let py_rejects = match spec.grouping_option {
        None => false,
        Some(FormatGrouping::Comma) => matches!(ch, 's' | 'c' | 'b' | 'o' | 'x' | 'X' | 'n' | 'N'),
        Some(FormatGrouping::Underscore) => matches!(ch, 's' | 'c' | 'n' | 'N'),
    };
    match &*r {
        Ok(()) => assert!(!py_rejects),
        Err(FormatSpecError::UnspecifiedFormat(sep, c)) => {
            assert!(py_rejects);
            assert!(*c == ch);
            assert!(*sep == if spec.grouping_option == Some(FormatGrouping::Comma) { ',' } else { '_' });
        }
        Err(_) => assert!(false),
    }
    kani::cover!(py_rejects);
    kani::cover!(!py_rejects && spec.grouping_option.is_some());
}

// @ob id=C18.k.separator_interval_total props=C18,C03 kind=complete tier=quick
// @clause no specification makes formatting panic: every spec that passes grouping validation on the integer path or the float path and actually reaches the grouping step asks get_separator_interval only for a type it handles (its panic! arm is unreachable), and the interval is 4 for b o x X and 3 for decimal and float types
// @fns FormatSpec::get_separator_interval FormatSpec::validate_format
#[kani::proof]
#[kani::unwind(4)]
fn c18_separator_interval_total() {
    let has_type: bool = kani::any();
    let ft = if has_type { Some(any_format_type()) } else { None };
    let g = any_grouping();
    kani::assume(g.is_some());
    let int_path: bool = kani::any();
    let spec = ManuallyDrop::new(spec_with(ft, g));
    let default = if int_path { FormatType::Decimal } else { FormatType::FixedPoint(Case::Lower) };
    let v = ManuallyDrop::new(spec.validate_format(default));
    kani::assume(v.is_ok());
    // types for which the drivers return an error before grouping (read off format_int / format_float)
    let early_error = match (&spec.format_type, int_path) {
        (Some(FormatType::String), _) => true,
        (Some(FormatType::Number(Case::Upper)), _) => true,
        (Some(FormatType::Decimal | FormatType::Binary | FormatType::Octal | FormatType::Hex(_) | FormatType::Character), false) => true,
        _ => false,
    };
    kani::assume(!early_error);
    let inter = spec.get_separator_interval(); // must not panic
    let ch = match &spec.format_type {
        Some(t) => char::from(t),
        None => 'd',
    };
    if matches!(ch, 'b' | 'o' | 'x' | 'X') {
        assert!(inter == 4);
    } else {
        assert!(inter == 3);
    }
    kani::cover!(matches!(spec.format_type, Some(FormatType::Exponent(_))));
    kani::cover!(matches!(spec.format_type, Some(FormatType::Percentage)));
    kani::cover!(inter == 4);
}

// @ob id=C18.k.canary props=C18 kind=canary
// @clause vacuity guard
// @fns FormatAlign::from_char
#[kani::proof]
fn c18_canary() {
    let c: char = kani::any();
    assert!(FormatAlign::from_char(c).is_none());
}

static mut FSA_CALLS: u32 = 0;
static mut FSA_PTR: usize = 0;
static mut FSA_BYTES: usize = 0;
static mut FSA_CHARS: usize = 0;
static mut FSA_SIGN_LEN: usize = 0;
static mut FSA_DEFAULT_LEFT: bool = false;

/// Recorder standing in for format_sign_and_align (which has its own obligations): captures the
/// text it is asked to pad.
fn fsa_recorder<T>(_spec: &FormatSpec, m: &T, sign_str: &str, default_align: FormatAlign) -> Result<String, FormatSpecError>
where
    T: CharLen + Deref<Target = str>,
{
    unsafe {
        FSA_CALLS += 1;
        FSA_PTR = m.deref().as_ptr() as usize;
        FSA_BYTES = m.deref().len();
        FSA_CHARS = m.char_len();
        FSA_SIGN_LEN = sign_str.len();
        FSA_DEFAULT_LEFT = default_align == FormatAlign::Left;
    }
    Ok(String::new())
}

/// core::str::slice_error_fail formats a long message (char iteration + Display) before panicking;
/// this stand-in panics at once.  Same observable behaviour for every property here: a panic.
fn slice_error_fail_plain(_s: &str, _begin: usize, _end: usize) -> ! {
    panic!("str slice index out of range or not on a char boundary")
}

/// A text value over a fixed buffer, with its character count.
struct Text<'a> {
    s: &'a str,
    chars: usize,
}
impl CharLen for Text<'_> {
    fn char_len(&self) -> usize {
        self.chars
    }
}
impl Deref for Text<'_> {
    type Target = str;
    fn deref(&self) -> &str {
        self.s
    }
}

// @ob id=C18.k.format_string_truncate props=C18,C03 kind=bounded tier=quick
// @bound texts of 0..2 characters: any Unicode scalar value (1-4 UTF-8 bytes) followed by any ASCII character; precision none, 0..4 or usize::MAX; every width
// @clause truncation of strings by characters: what format_string hands to the padding step is the prefix of the value holding min(precision, len) characters - cut on a character boundary, never inside a multi-byte character, never a panic - with that character count, no sign and left default alignment (so truncation happens before padding); a non-string type is UnknownFormatCode
// @fns FormatSpec::format_string FormatSpec::validate_format
#[kani::proof]
#[kani::unwind(6)]
#[kani::stub(FormatSpec::format_sign_and_align, fsa_recorder)]
#[kani::stub(core::str::slice_error_fail, slice_error_fail_plain)]
fn c18_format_string_truncate() {
    // shape: n <= 2 characters; the first is any Unicode scalar value, the second is ASCII
    let c0: char = kani::any();
    let c1: u8 = kani::any();
    kani::assume(c1 < 128);
    let n: usize = kani::any();
    kani::assume(n <= 2);
    let mut buf = [0u8; 5];
    let l0 = c0.encode_utf8(&mut buf[..4]).len();
    buf[l0] = c1;
    let ends = [0usize, l0, l0 + 1]; // ends[k] = byte offset after k characters
    let off = ends[n];
    let s = unsafe { std::str::from_utf8_unchecked(&buf[..off]) };
    let text = Text { s, chars: n };
    let precision: Option<usize> = kani::any();
    if let Some(p) = precision {
        // 0..4 and one huge value: everything >= the length takes the same (non-truncating) path
        kani::assume(p <= 4 || p == usize::MAX);
    }
    let width: Option<usize> = kani::any();
    let spec = ManuallyDrop::new(FormatSpec {
        conversion: None,
        fill: None,
        align: None,
        sign: None,
        alternate_form: false,
        width,
        grouping_option: None,
        precision,
        format_type: if kani::any() { Some(FormatType::String) } else { None },
    });
    let r = ManuallyDrop::new(spec.format_string(&text));
    assert!(r.is_ok());
    let kept = match precision {
        Some(p) if p < n => p,
        _ => n,
    };
    unsafe {
        assert!(FSA_CALLS == 1);
        assert!(FSA_PTR == s.as_ptr() as usize);
        assert!(FSA_BYTES == ends[kept]);
        assert!(FSA_CHARS == kept);
        assert!(FSA_SIGN_LEN == 0);
        assert!(FSA_DEFAULT_LEFT);
    }
    kani::cover!(kept == 1 && n == 2 && c0.len_utf8() == 3);
    kani::cover!(kept == 0 && n > 0);
    kani::cover!(precision.is_some() && precision.unwrap() > n);
}

// @ob id=C18.k.format_string_wrong_type props=C18 kind=complete tier=quick
// @clause formatting a string with a non-string presentation type fails (Python raises ValueError: unknown format code) naming that type's character
// @fns FormatSpec::format_string
#[kani::proof]
#[kani::unwind(6)]
#[kani::stub(FormatSpec::format_sign_and_align, fsa_recorder)]
fn c18_format_string_wrong_type() {
    let ft = any_format_type();
    kani::assume(!matches!(ft, FormatType::String));
    let ch = char::from(&ft);
    let spec = ManuallyDrop::new(spec_with(Some(ft), None));
    let text = Text { s: "ab", chars: 2 };
    let r = ManuallyDrop::new(spec.format_string(&text));
    match &*r {
        Err(FormatSpecError::UnknownFormatCode(c, what)) => {
            assert!(*c == ch);
            assert!(what.len() == 3);
        }
        _ => assert!(false),
    }
}

// ---------------------------------------------------------------------------------------------
// C20: str.format template splitting

/// "<c1><c2>Z" / "<c1>" / "" as a str over a caller-provided buffer (n = number of symbolic chars).
fn two_chars_then_z(c1: char, c2: char, n: usize, buf: &mut [u8; 9]) -> &str {
    let mut off = 0;
    if n >= 1 {
        off += c1.encode_utf8(&mut buf[0..4]).len();
    }
    if n >= 2 {
        let l1 = off;
        off += c2.encode_utf8(&mut buf[l1..l1 + 4]).len();
        buf[off] = b'Z';
        off += 1;
    }
    unsafe { std::str::from_utf8_unchecked(&buf[..off]) }
}

// @ob id=C20.k.parse_literal_single props=C20,C03 kind=complete tier=quick
// @clause literal scanner step with doubled-brace unescaping: for every non-empty text, an ordinary first character is returned and exactly it is consumed; '{{' and '}}' yield one literal brace and consume both; a single '{' or '}' (followed by anything else, or by nothing) is rejected - all pairs of chars, cut on character boundaries (the step reads at most two characters, so this is complete)
// @fns FormatString::parse_literal_single
#[kani::proof]
#[kani::unwind(6)]
#[kani::stub(core::str::slice_error_fail, slice_error_fail_plain)]
fn c20_parse_literal_single() {
    let c1: char = kani::any();
    let c2: char = kani::any();
    let n: usize = kani::any();
    kani::assume(n == 1 || n == 2);
    let mut buf = [0u8; 9];
    let text = two_chars_then_z(c1, c2, n, &mut buf);
    let total = text.len();
    let r = ManuallyDrop::new(FormatString::parse_literal_single(text));
    let brace = c1 == '{' || c1 == '}';
    let doubled = brace && n == 2 && c2 == c1;
    match &*r {
        Ok((ch, rest)) => {
            assert!(*ch == c1);
            assert!(!brace || doubled);
            let consumed = if doubled { 2 } else { c1.len_utf8() };
            assert!(rest.len() == total - consumed);
            if n == 2 {
                assert!(rest.as_bytes()[rest.len() - 1] == b'Z');
            }
        }
        Err(e) => {
            assert!(brace && !doubled);
            assert!(matches!(e, FormatParseError::UnescapedStartBracketInLiteral));
        }
    }
    kani::cover!(doubled);
    kani::cover!(brace && !doubled && n == 1);
    kani::cover!(!brace && c1.len_utf8() == 4);
}

// ---------------------------------------------------------------------------------------------
// C18: fill/align, width, precision

// @ob id=C18.k.fill_and_align props=C18,C03 kind=complete tier=quick
// @clause fill and alignment: a fill character (ANY character, also multi-byte) is taken exactly when the SECOND character is an alignment character; otherwise a leading alignment character alone is taken; otherwise nothing - and the remaining text is the input minus exactly the consumed characters, cut on character boundaries (all pairs of chars and shorter texts; the function looks at no more than the first two characters)
// @fns parse_fill_and_align FormatAlign::parse
#[kani::proof]
#[kani::unwind(7)]
#[kani::stub(core::str::slice_error_fail, slice_error_fail_plain)]
fn c18_fill_and_align() {
    let c1: char = kani::any();
    let c2: char = kani::any();
    let n: usize = kani::any();
    kani::assume(n <= 2);
    let mut buf = [0u8; 9];
    let text = two_chars_then_z(c1, c2, n, &mut buf);
    let total = text.len();
    let (fill, align, rest) = parse_fill_and_align(text);
    let a1 = if n >= 1 { FormatAlign::from_char(c1) } else { None };
    let a2 = if n >= 2 { FormatAlign::from_char(c2) } else { None };
    if a2.is_some() {
        assert!(fill == Some(c1));
        assert!(align == a2);
        assert!(rest.len() == total - c1.len_utf8() - 1);
    } else if a1.is_some() {
        assert!(fill.is_none());
        assert!(align == a1);
        assert!(rest.len() == total - 1);
    } else {
        assert!(fill.is_none() && align.is_none());
        assert!(rest.len() == total);
    }
    kani::cover!(a2.is_some() && c1.len_utf8() == 3);
    kani::cover!(a2.is_none() && a1.is_some() && n == 2);
    kani::cover!(n == 0);
}

// @ob id=C18.k.parse_number props=C18,C03 kind=bounded tier=quick
// @bound ASCII texts of up to 4 characters (each any ASCII byte), i.e. widths up to 9999; the too-many-digits error path is not reached within this bound
// @clause width: the longest run of leading ASCII digits is the width (its decimal value) and exactly those digits are consumed; no digits means no width and nothing consumed
// @fns parse_number get_num_digits
#[kani::proof]
#[kani::unwind(7)]
#[kani::stub(core::str::slice_error_fail, slice_error_fail_plain)]
fn c18_parse_number() {
    let d: [u8; 4] = kani::any();
    let n: usize = kani::any();
    kani::assume(n <= 4);
    for i in 0..4 {
        kani::assume(d[i] < 128);
    }
    let text = unsafe { std::str::from_utf8_unchecked(&d[..n]) };
    let r = ManuallyDrop::new(parse_number(text));
    let mut k = 0;
    let mut v: usize = 0;
    for i in 0..4 {
        if i == k && i < n && d[i] >= b'0' && d[i] <= b'9' {
            v = v * 10 + (d[i] - b'0') as usize;
            k += 1;
        }
    }
    match &*r {
        Ok((num, rest)) => {
            assert!(rest.len() == n - k);
            if k == 0 {
                assert!(num.is_none());
            } else {
                assert!(*num == Some(v));
            }
        }
        Err(_) => assert!(false),
    }
    kani::cover!(k == 4);
    kani::cover!(k == 2 && n == 4);
}

// @ob id=C18.k.parse_precision props=C18,C03 kind=bounded tier=quick
// @bound ASCII texts of up to 4 characters
// @clause precision: '.' followed by digits is a precision with their value, consuming the dot and the digits; a '.' without digits, or no '.', gives no precision and consumes nothing
// @fns parse_precision parse_number
#[kani::proof]
#[kani::unwind(7)]
#[kani::stub(core::str::slice_error_fail, slice_error_fail_plain)]
fn c18_parse_precision() {
    let d: [u8; 4] = kani::any();
    let n: usize = kani::any();
    kani::assume(n <= 4);
    for i in 0..4 {
        kani::assume(d[i] < 128);
    }
    let text = unsafe { std::str::from_utf8_unchecked(&d[..n]) };
    let r = ManuallyDrop::new(parse_precision(text));
    let dot = n >= 1 && d[0] == b'.';
    let mut k = 1;
    let mut v: usize = 0;
    for i in 1..4 {
        if dot && i == k && i < n && d[i] >= b'0' && d[i] <= b'9' {
            v = v * 10 + (d[i] - b'0') as usize;
            k += 1;
        }
    }
    match &*r {
        Ok((p, rest)) => {
            if dot && k > 1 {
                assert!(*p == Some(v));
                assert!(rest.len() == n - k);
            } else {
                assert!(p.is_none());
                assert!(rest.len() == n);
            }
        }
        Err(_) => assert!(false),
    }
    kani::cover!(dot && k == 4);
    kani::cover!(dot && k == 1);
}

// @ob id=C20.k.canary props=C20 kind=canary
// @clause vacuity guard
// @fns FormatString::parse_literal_single
#[kani::proof]
#[kani::unwind(6)]
#[kani::stub(core::str::slice_error_fail, slice_error_fail_plain)]
fn c20_canary() {
    let c1: char = kani::any();
    let mut buf = [0u8; 9];
    let text = two_chars_then_z(c1, 'x', 1, &mut buf);
    let r = ManuallyDrop::new(FormatString::parse_literal_single(text));
    assert!(r.is_ok());
}

// ---------------------------------------------------------------------------------------------
// C18: grouping width

static mut AMS_CALLS: u32 = 0;
static mut AMS_INTER: i32 = 0;
static mut AMS_SEP: char = ' ';
static mut AMS_DIGITS: i32 = 0;
static mut AMS_LEN: usize = 0;

/// Recorder standing in for add_magnitude_separators_for_char (the String surgery itself).
fn ams_recorder(magnitude_str: String, inter: i32, sep: char, disp_digit_cnt: i32) -> String {
    unsafe {
        AMS_CALLS += 1;
        AMS_INTER = inter;
        AMS_SEP = sep;
        AMS_DIGITS = disp_digit_cnt;
        AMS_LEN = magnitude_str.len();
    }
    magnitude_str
}

/// add_magnitude_separators for one concrete (magnitude, prefix) pair; everything about the spec
/// stays symbolic.
fn grouping_case(mag: &'static str, prefix: &'static str) {
    let g = any_grouping();
    let ft_k: u8 = kani::any();
    kani::assume(ft_k < 5);
    let ft = match ft_k {
        0 => None,
        1 => Some(FormatType::Decimal),
        2 => Some(FormatType::Hex(any_case())),
        3 => Some(FormatType::Binary),
        _ => Some(FormatType::FixedPoint(any_case())),
    };
    let width: Option<usize> = kani::any();
    if let Some(w) = width {
        kani::assume(w <= 1000);
    }
    let fill_k: u8 = kani::any();
    kani::assume(fill_k < 3);
    let fill = match fill_k {
        0 => None,
        1 => Some('0'),
        _ => Some('*'),
    };
    let align = any_align();
    let spec = ManuallyDrop::new(FormatSpec {
        conversion: None,
        fill,
        align,
        sign: None,
        alternate_form: kani::any(),
        width,
        grouping_option: g,
        precision: None,
        format_type: ft,
    });
    let mag_len = mag.len();
    let plen = prefix.len();
    unsafe {
        AMS_CALLS = 0;
    }
    let out = ManuallyDrop::new(spec.add_magnitude_separators(String::from(mag), prefix));
    assert!(out.len() == mag_len);
    unsafe {
        if spec.grouping_option.is_none() {
            assert!(AMS_CALLS == 0);
        } else {
            assert!(AMS_CALLS == 1);
            assert!(AMS_LEN == mag_len);
            assert!(AMS_SEP == if spec.grouping_option == Some(FormatGrouping::Comma) { ',' } else { '_' });
            assert!(AMS_INTER == if ft_k == 2 || ft_k == 3 { 4 } else { 3 });
            let zero_padded = fill == Some('0') && align == Some(FormatAlign::AfterSign);
            let expect = match width {
                Some(w) if zero_padded && w as i32 - plen as i32 > mag_len as i32 => w as i32 - plen as i32,
                _ => mag_len as i32,
            };
            assert!(AMS_DIGITS == expect);
        }
    }
    kani::cover!(unsafe { AMS_CALLS == 1 && AMS_DIGITS > 4 });
    kani::cover!(unsafe { AMS_CALLS == 1 } && width.is_some() && fill.is_none());
}

// @ob id=C18.k.grouping_digit_count props=C18 kind=complete tier=quick
// @clause ',' and '_' grouping at the right interval with width-driven zero padding: the number of digit positions handed to the grouping step is the magnitude's own length, except for sign-aware zero padding (fill '0' with '=' alignment, which is what the 0 flag means), where it is max(width - len(sign and base prefix), length); the separator and interval are those of the spec; without a grouping option the magnitude is returned untouched (all widths <= 1000, fills, alignments, types; magnitude/prefix pairs "7"/"", "1234"/"", "1234"/"-", "1234"/"-0x", "12"/"0x" - the function only uses their lengths)
// @fns FormatSpec::add_magnitude_separators FormatSpec::get_separator_interval
#[kani::proof]
#[kani::unwind(6)]
#[kani::stub(FormatSpec::add_magnitude_separators_for_char, ams_recorder)]
fn c18_grouping_digit_count() {
    grouping_case("7", "");
    grouping_case("1234", "");
    grouping_case("1234", "-");
    grouping_case("1234", "-0x");
    grouping_case("12", "0x");
}

fn any_align() -> Option<FormatAlign> {
    let k: u8 = kani::any();
    kani::assume(k < 5);
    match k {
        0 => None,
        1 => Some(FormatAlign::Left),
        2 => Some(FormatAlign::Right),
        3 => Some(FormatAlign::AfterSign),
        _ => Some(FormatAlign::Center),
    }
}




// @ob id=C18.k.conversion_parse props=C18,C20,C03 kind=complete tier=quick
// @clause conversion prefix: '!' followed by one of s r a b is a conversion and exactly those two characters are consumed (cut on character boundaries); anything else - also '!' followed by another character, or a lone '!' - consumes nothing (all pairs of chars and shorter texts)
// @fns FormatConversion::parse FormatConversion::from_string FormatConversion::from_char
#[kani::proof]
#[kani::unwind(7)]
#[kani::stub(core::str::slice_error_fail, slice_error_fail_plain)]
fn c18_conversion_parse() {
    let c1: char = kani::any();
    let c2: char = kani::any();
    let n: usize = kani::any();
    kani::assume(n <= 2);
    let mut buf = [0u8; 9];
    let text = two_chars_then_z(c1, c2, n, &mut buf);
    let total = text.len();
    let (conv, rest) = FormatConversion::parse(text);
    let expect = if n == 2 && c1 == '!' { FormatConversion::from_char(c2) } else { None };
    assert!(conv == expect);
    if expect.is_some() {
        assert!(rest.len() == total - 2);
        assert!(rest.len() == 1 && rest.as_bytes()[0] == b'Z');
    } else {
        assert!(rest.len() == total);
    }
    kani::cover!(expect.is_some());
    kani::cover!(n == 2 && c1 == '!' && expect.is_none());
    kani::cover!(n == 1 && c1 == '!');
}
