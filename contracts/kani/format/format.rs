// Kani harnesses for format/src/format.rs (format-spec mini-language and str.format templates).
use super::*;
use std::mem::ManuallyDrop;

/// "<c>9" as a str, for any char c (UTF-8 encoded into a caller-provided buffer).
fn one_char_then_9(c: char, buf: &mut [u8; 5]) -> &str {
    let l = c.encode_utf8(&mut buf[..4]).len();
    buf[l] = b'9';
    // the buffer holds a valid encoding followed by an ASCII byte
    unsafe { std::str::from_utf8_unchecked(&buf[..l + 1]) }
}

fn any_case() -> Case {
    if kani::any() {
        Case::Lower
    } else {
        Case::Upper
    }
}

fn any_format_type() -> FormatType {
    let k: u8 = kani::any();
    kani::assume(k < 11);
    match k {
        0 => FormatType::String,
        1 => FormatType::Binary,
        2 => FormatType::Character,
        3 => FormatType::Decimal,
        4 => FormatType::Octal,
        5 => FormatType::Number(any_case()),
        6 => FormatType::Hex(any_case()),
        7 => FormatType::Exponent(any_case()),
        8 => FormatType::GeneralFormat(any_case()),
        9 => FormatType::FixedPoint(any_case()),
        _ => FormatType::Percentage,
    }
}

// @ob id=C18.k.align_table props=C18,C03 kind=complete tier=quick
// @clause alignment characters: exactly < > = ^ are alignments, with Python's meaning (all chars)
// @fns FormatAlign::from_char
#[kani::proof]
fn c18_align_table() {
    let c: char = kani::any();
    let r = FormatAlign::from_char(c);
    let expect = match c {
        '<' => Some(FormatAlign::Left),
        '>' => Some(FormatAlign::Right),
        '=' => Some(FormatAlign::AfterSign),
        '^' => Some(FormatAlign::Center),
        _ => None,
    };
    assert!(r == expect);
}

// @ob id=C18.k.conversion_table props=C18,C20 kind=complete tier=quick
// @clause conversion characters: s r a (and b) select their conversion, every other character none (all chars)
// @fns FormatConversion::from_char
#[kani::proof]
fn c18_conversion_table() {
    let c: char = kani::any();
    let r = FormatConversion::from_char(c);
    let expect = match c {
        's' => Some(FormatConversion::Str),
        'r' => Some(FormatConversion::Repr),
        'a' => Some(FormatConversion::Ascii),
        'b' => Some(FormatConversion::Bytes),
        _ => None,
    };
    assert!(r == expect);
}

// @ob id=C18.k.one_char_fields props=C18,C03 kind=complete tier=quick
// @clause the one-character fields of a format spec (alignment, sign + - space, alternate form #, zero flag 0, grouping , _): each accepts exactly Python's characters, consumes exactly that one character (cut on a character boundary, also for multi-byte characters) and otherwise leaves the text untouched (all chars)
// @fns FormatAlign::parse FormatSign::parse FormatGrouping::parse parse_alternate_form parse_zero
#[kani::proof]
#[kani::unwind(6)]
fn c18_one_char_fields() {
    let c: char = kani::any();
    let mut buf = [0u8; 5];
    let text = one_char_then_9(c, &mut buf);
    let full = text.len();
    let rest_len_if_taken = full - c.len_utf8();
    let which: u8 = kani::any();
    kani::assume(which < 5);
    let (taken, rest): (bool, &str) = match which {
        0 => {
            let (a, r) = FormatAlign::parse(text);
            assert!(a == FormatAlign::from_char(c));
            (a.is_some(), r)
        }
        1 => {
            let (s, r) = FormatSign::parse(text);
            let e = match c {
                '-' => Some(FormatSign::Minus),
                '+' => Some(FormatSign::Plus),
                ' ' => Some(FormatSign::MinusOrSpace),
                _ => None,
            };
            assert!(s == e);
            (s.is_some(), r)
        }
        2 => {
            let (g, r) = FormatGrouping::parse(text);
            let e = match c {
                '_' => Some(FormatGrouping::Underscore),
                ',' => Some(FormatGrouping::Comma),
                _ => None,
            };
            assert!(g == e);
            (g.is_some(), r)
        }
        3 => {
            let (a, r) = parse_alternate_form(text);
            assert!(a == (c == '#'));
            (a, r)
        }
        _ => {
            let (z, r) = parse_zero(text);
            assert!(z == (c == '0'));
            (z, r)
        }
    };
    if taken {
        assert!(rest.len() == rest_len_if_taken);
        assert!(rest.as_bytes()[rest.len() - 1] == b'9');
    } else {
        assert!(rest.len() == full);
    }
    kani::cover!(taken);
    kani::cover!(!taken && c.len_utf8() == 3);
}

// @ob id=C18.k.type_table props=C18,C03 kind=complete tier=quick
// @clause presentation types: exactly s b c d o n N x X e E f F g G % are accepted (N is this implementation's documented extra), each consumes one character, and converting the parsed type back to its character gives the same character (all chars)
// @fns FormatType::parse char::from(&FormatType)
#[kani::proof]
#[kani::unwind(6)]
fn c18_type_table() {
    let c: char = kani::any();
    let mut buf = [0u8; 5];
    let text = one_char_then_9(c, &mut buf);
    let (t, rest) = FormatType::parse(text);
    let known = matches!(c, 's' | 'b' | 'c' | 'd' | 'o' | 'n' | 'N' | 'x' | 'X' | 'e' | 'E' | 'f' | 'F' | 'g' | 'G' | '%');
    match &t {
        Some(ft) => {
            assert!(known);
            assert!(char::from(ft) == c);
            assert!(rest.len() == 1);
            let expect_ok = match (ft, c) {
                (FormatType::String, 's') | (FormatType::Binary, 'b') | (FormatType::Character, 'c') => true,
                (FormatType::Decimal, 'd') | (FormatType::Octal, 'o') | (FormatType::Percentage, '%') => true,
                (FormatType::Number(Case::Lower), 'n') | (FormatType::Number(Case::Upper), 'N') => true,
                (FormatType::Hex(Case::Lower), 'x') | (FormatType::Hex(Case::Upper), 'X') => true,
                (FormatType::Exponent(Case::Lower), 'e') | (FormatType::Exponent(Case::Upper), 'E') => true,
                (FormatType::FixedPoint(Case::Lower), 'f') | (FormatType::FixedPoint(Case::Upper), 'F') => true,
                (FormatType::GeneralFormat(Case::Lower), 'g') | (FormatType::GeneralFormat(Case::Upper), 'G') => true,
                _ => false,
            };
            assert!(expect_ok);
        }
        None => {
            assert!(!known);
            assert!(rest.len() == text.len());
        }
    }
    kani::cover!(t.is_some());
}

// @ob id=C18.k.type_roundtrip props=C18 kind=complete tier=quick
// @clause every presentation type has a distinct character that parses back to it (all 16 types)
// @fns FormatType::parse char::from(&FormatType)
#[kani::proof]
#[kani::unwind(6)]
fn c18_type_roundtrip() {
    let ft = any_format_type();
    let c = char::from(&ft);
    let mut buf = [0u8; 5];
    let text = one_char_then_9(c, &mut buf);
    let (t, _) = FormatType::parse(text);
    assert!(t == Some(ft));
}

fn spec_with(format_type: Option<FormatType>, grouping: Option<FormatGrouping>) -> FormatSpec {
    FormatSpec {
        conversion: None,
        fill: None,
        align: None,
        sign: None,
        alternate_form: kani::any(),
        width: None,
        grouping_option: grouping,
        precision: None,
        format_type,
    }
}

fn any_grouping() -> Option<FormatGrouping> {
    let k: u8 = kani::any();
    kani::assume(k < 3);
    match k {
        0 => None,
        1 => Some(FormatGrouping::Comma),
        _ => Some(FormatGrouping::Underscore),
    }
}

// @ob id=C18.k.grouping_validation props=C18 kind=complete tier=quick
// @clause validation of grouping vs type fails whenever Python raises: ',' is rejected with s c b o x X n (and N), '_' with s c n (and N), and accepted for d e E f F g G % and the default type (both default types, all combinations)
// @fns FormatSpec::validate_format
#[kani::proof]
#[kani::unwind(4)]
fn c18_grouping_validation() {
    let has_type: bool = kani::any();
    let ft = if has_type { Some(any_format_type()) } else { None };
    let g = any_grouping();
    let int_default: bool = kani::any();
    let spec = ManuallyDrop::new(spec_with(ft, g));
    let default = if int_default { FormatType::Decimal } else { FormatType::FixedPoint(Case::Lower) };
    let r = ManuallyDrop::new(spec.validate_format(default));
    // effective type character
    let ch = match &spec.format_type {
        Some(t) => char::from(t),
        None => if int_default { 'd' } else { 'f' },
    };
    let py_rejects = match spec.grouping_option {
        None => false,
        Some(FormatGrouping::Comma) => matches!(ch, 's' | 'c' | 'b' | 'o' | 'x' | 'X' | 'n' | 'N'),
        Some(FormatGrouping::Underscore) => matches!(ch, 's' | 'c' | 'n' | 'N'),
    };
    match &*r {
        Ok(()) => assert!(!py_rejects),
        Err(FormatSpecError::UnspecifiedFormat(sep, c)) => {
            assert!(py_rejects);
            assert!(*c == ch);
            assert!(*sep == if spec.grouping_option == Some(FormatGrouping::Comma) { ',' } else { '_' });
        }
        Err(_) => assert!(false),
    }
    kani::cover!(py_rejects);
    kani::cover!(!py_rejects && spec.grouping_option.is_some());
}

// @ob id=C18.k.separator_interval_total props=C18,C03 kind=complete tier=quick
// @clause no specification makes formatting panic: every spec that passes grouping validation on the integer path or the float path and actually reaches the grouping step asks get_separator_interval only for a type it handles (its panic! arm is unreachable), and the interval is 4 for b o x X and 3 for decimal and float types
// @fns FormatSpec::get_separator_interval FormatSpec::validate_format
#[kani::proof]
#[kani::unwind(4)]
fn c18_separator_interval_total() {
    let has_type: bool = kani::any();
    let ft = if has_type { Some(any_format_type()) } else { None };
    let g = any_grouping();
    kani::assume(g.is_some());
    let int_path: bool = kani::any();
    let spec = ManuallyDrop::new(spec_with(ft, g));
    let default = if int_path { FormatType::Decimal } else { FormatType::FixedPoint(Case::Lower) };
    let v = ManuallyDrop::new(spec.validate_format(default));
    kani::assume(v.is_ok());
    // types for which the drivers return an error before grouping (read off format_int / format_float)
    let early_error = match (&spec.format_type, int_path) {
        (Some(FormatType::String), _) => true,
        (Some(FormatType::Number(Case::Upper)), _) => true,
        (Some(FormatType::Decimal | FormatType::Binary | FormatType::Octal | FormatType::Hex(_) | FormatType::Character), false) => true,
        _ => false,
    };
    kani::assume(!early_error);
    let inter = spec.get_separator_interval(); // must not panic
    let ch = match &spec.format_type {
        Some(t) => char::from(t),
        None => 'd',
    };
    if matches!(ch, 'b' | 'o' | 'x' | 'X') {
        assert!(inter == 4);
    } else {
        assert!(inter == 3);
    }
    kani::cover!(matches!(spec.format_type, Some(FormatType::Exponent(_))));
    kani::cover!(matches!(spec.format_type, Some(FormatType::Percentage)));
    kani::cover!(inter == 4);
}

// @ob id=C18.k.canary props=C18 kind=canary
// @clause vacuity guard
// @fns FormatAlign::from_char
#[kani::proof]
fn c18_canary() {
    let c: char = kani::any();
    assert!(FormatAlign::from_char(c).is_none());
}

static mut FSA_CALLS: u32 = 0;
static mut FSA_PTR: usize = 0;
static mut FSA_BYTES: usize = 0;
static mut FSA_CHARS: usize = 0;
static mut FSA_SIGN_LEN: usize = 0;
static mut FSA_DEFAULT_LEFT: bool = false;

/// Recorder standing in for format_sign_and_align (which has its own obligations): captures the
/// text it is asked to pad.
fn fsa_recorder<T>(_spec: &FormatSpec, m: &T, sign_str: &str, default_align: FormatAlign) -> Result<String, FormatSpecError>
where
    T: CharLen + Deref<Target = str>,
{
    unsafe {
        FSA_CALLS += 1;
        FSA_PTR = m.deref().as_ptr() as usize;
        FSA_BYTES = m.deref().len();
        FSA_CHARS = m.char_len();
        FSA_SIGN_LEN = sign_str.len();
        FSA_DEFAULT_LEFT = default_align == FormatAlign::Left;
    }
    Ok(String::new())
}

/// core::str::slice_error_fail formats a long message (char iteration + Display) before panicking;
/// this stand-in panics at once.  Same observable behaviour for every property here: a panic.
fn slice_error_fail_plain(_s: &str, _begin: usize, _end: usize) -> ! {
    panic!("str slice index out of range or not on a char boundary")
}

/// A text value over a fixed buffer, with its character count.
struct Text<'a> {
    s: &'a str,
    chars: usize,
}
impl CharLen for Text<'_> {
    fn char_len(&self) -> usize {
        self.chars
    }
}
impl Deref for Text<'_> {
    type Target = str;
    fn deref(&self) -> &str {
        self.s
    }
}

// @ob id=C18.k.format_string_truncate props=C18,C03 kind=bounded tier=quick
// @bound texts of 0..2 characters: any Unicode scalar value (1-4 UTF-8 bytes) followed by any ASCII character; precision none, 0..4 or usize::MAX; every width
// @clause truncation of strings by characters: what format_string hands to the padding step is the prefix of the value holding min(precision, len) characters - cut on a character boundary, never inside a multi-byte character, never a panic - with that character count, no sign and left default alignment (so truncation happens before padding); a non-string type is UnknownFormatCode
// @fns FormatSpec::format_string FormatSpec::validate_format
#[kani::proof]
#[kani::unwind(6)]
#[kani::stub(FormatSpec::format_sign_and_align, fsa_recorder)]
#[kani::stub(core::str::slice_error_fail, slice_error_fail_plain)]
fn c18_format_string_truncate() {
    // shape: n <= 2 characters; the first is any Unicode scalar value, the second is ASCII
    let c0: char = kani::any();
    let c1: u8 = kani::any();
    kani::assume(c1 < 128);
    let n: usize = kani::any();
    kani::assume(n <= 2);
    let mut buf = [0u8; 5];
    let l0 = c0.encode_utf8(&mut buf[..4]).len();
    buf[l0] = c1;
    let ends = [0usize, l0, l0 + 1]; // ends[k] = byte offset after k characters
    let off = ends[n];
    let s = unsafe { std::str::from_utf8_unchecked(&buf[..off]) };
    let text = Text { s, chars: n };
    let precision: Option<usize> = kani::any();
    if let Some(p) = precision {
        // 0..4 and one huge value: everything >= the length takes the same (non-truncating) path
        kani::assume(p <= 4 || p == usize::MAX);
    }
    let width: Option<usize> = kani::any();
    let spec = ManuallyDrop::new(FormatSpec {
        conversion: None,
        fill: None,
        align: None,
        sign: None,
        alternate_form: false,
        width,
        grouping_option: None,
        precision,
        format_type: if kani::any() { Some(FormatType::String) } else { None },
    });
    let r = ManuallyDrop::new(spec.format_string(&text));
    assert!(r.is_ok());
    let kept = match precision {
        Some(p) if p < n => p,
        _ => n,
    };
    unsafe {
        assert!(FSA_CALLS == 1);
        assert!(FSA_PTR == s.as_ptr() as usize);
        assert!(FSA_BYTES == ends[kept]);
        assert!(FSA_CHARS == kept);
        assert!(FSA_SIGN_LEN == 0);
        assert!(FSA_DEFAULT_LEFT);
    }
    kani::cover!(kept == 1 && n == 2 && c0.len_utf8() == 3);
    kani::cover!(kept == 0 && n > 0);
    kani::cover!(precision.is_some() && precision.unwrap() > n);
}

// @ob id=C18.k.format_string_wrong_type props=C18 kind=complete tier=quick
// @clause formatting a string with a non-string presentation type fails (Python raises ValueError: unknown format code) naming that type's character
// @fns FormatSpec::format_string
#[kani::proof]
#[kani::unwind(6)]
#[kani::stub(FormatSpec::format_sign_and_align, fsa_recorder)]
fn c18_format_string_wrong_type() {
    let ft = any_format_type();
    kani::assume(!matches!(ft, FormatType::String));
    let ch = char::from(&ft);
    let spec = ManuallyDrop::new(spec_with(Some(ft), None));
    let text = Text { s: "ab", chars: 2 };
    let r = ManuallyDrop::new(spec.format_string(&text));
    match &*r {
        Err(FormatSpecError::UnknownFormatCode(c, what)) => {
            assert!(*c == ch);
            assert!(what.len() == 3);
        }
        _ => assert!(false),
    }
}

// @ob id=C18.k.format_string_flags props=C18 kind=complete tier=quick
// @clause a string value: sign, alternate form (#) and '=' alignment are rejected as Python rejects them ("... not allowed in string format specifier"); every other combination of fill, alignment, width reaches the padding step once with left default alignment (all fills, alignments, signs, widths; types s and none)
// @fns FormatSpec::format_string
#[kani::proof]
#[kani::unwind(6)]
#[kani::stub(FormatSpec::format_sign_and_align, fsa_recorder)]
fn c18_format_string_flags() {
    let sign_k: u8 = kani::any();
    kani::assume(sign_k < 4);
    let sign = match sign_k {
        0 => None,
        1 => Some(FormatSign::Plus),
        2 => Some(FormatSign::Minus),
        _ => Some(FormatSign::MinusOrSpace),
    };
    let align = any_align();
    let alternate_form: bool = kani::any();
    let spec = ManuallyDrop::new(FormatSpec {
        conversion: None,
        fill: kani::any(),
        align,
        sign,
        alternate_form,
        width: kani::any(),
        grouping_option: None,
        precision: None,
        format_type: if kani::any() { Some(FormatType::String) } else { None },
    });
    let text = Text { s: "ab", chars: 2 };
    unsafe {
        FSA_CALLS = 0;
    }
    let r = ManuallyDrop::new(spec.format_string(&text));
    let python_rejects = sign.is_some() || alternate_form || align == Some(FormatAlign::AfterSign);
    if python_rejects {
        assert!(matches!(&*r, Err(FormatSpecError::NotAllowed(_))));
        assert!(unsafe { FSA_CALLS } == 0);
    } else {
        assert!(r.is_ok());
        unsafe {
            assert!(FSA_CALLS == 1);
            assert!(FSA_DEFAULT_LEFT);
            assert!(FSA_SIGN_LEN == 0);
            assert!(FSA_BYTES == 2);
        }
    }
    kani::cover!(python_rejects);
    kani::cover!(!python_rejects && spec.fill == Some('0') && align.is_none());
}

// ---------------------------------------------------------------------------------------------
// C20: str.format template splitting

/// "<c1><c2>Z" / "<c1>" / "" as a str over a caller-provided buffer (n = number of symbolic chars).
fn two_chars_then_z(c1: char, c2: char, n: usize, buf: &mut [u8; 9]) -> &str {
    let mut off = 0;
    if n >= 1 {
        off += c1.encode_utf8(&mut buf[0..4]).len();
    }
    if n >= 2 {
        let l1 = off;
        off += c2.encode_utf8(&mut buf[l1..l1 + 4]).len();
        buf[off] = b'Z';
        off += 1;
    }
    unsafe { std::str::from_utf8_unchecked(&buf[..off]) }
}

// @ob id=C20.k.parse_literal_single props=C20,C03 kind=complete tier=quick
// @clause literal scanner step with doubled-brace unescaping: for every non-empty text, an ordinary first character is returned and exactly it is consumed; '{{' and '}}' yield one literal brace and consume both; a single '{' or '}' (followed by anything else, or by nothing) is rejected - all pairs of chars, cut on character boundaries (the step reads at most two characters, so this is complete)
// @fns FormatString::parse_literal_single
#[kani::proof]
#[kani::unwind(6)]
#[kani::stub(core::str::slice_error_fail, slice_error_fail_plain)]
fn c20_parse_literal_single() {
    let c1: char = kani::any();
    let c2: char = kani::any();
    let n: usize = kani::any();
    kani::assume(n == 1 || n == 2);
    let mut buf = [0u8; 9];
    let text = two_chars_then_z(c1, c2, n, &mut buf);
    let total = text.len();
    let r = ManuallyDrop::new(FormatString::parse_literal_single(text));
    let brace = c1 == '{' || c1 == '}';
    let doubled = brace && n == 2 && c2 == c1;
    match &*r {
        Ok((ch, rest)) => {
            assert!(*ch == c1);
            assert!(!brace || doubled);
            let consumed = if doubled { 2 } else { c1.len_utf8() };
            assert!(rest.len() == total - consumed);
            if n == 2 {
                assert!(rest.as_bytes()[rest.len() - 1] == b'Z');
            }
        }
        Err(e) => {
            assert!(brace && !doubled);
            assert!(matches!(e, FormatParseError::UnescapedStartBracketInLiteral));
        }
    }
    kani::cover!(doubled);
    kani::cover!(brace && !doubled && n == 1);
    kani::cover!(!brace && c1.len_utf8() == 4);
}

// ---------------------------------------------------------------------------------------------
// C18: fill/align, width, precision

// @ob id=C18.k.fill_and_align props=C18,C03 kind=complete tier=quick
// @clause fill and alignment: a fill character (ANY character, also multi-byte) is taken exactly when the SECOND character is an alignment character; otherwise a leading alignment character alone is taken; otherwise nothing - and the remaining text is the input minus exactly the consumed characters, cut on character boundaries (all pairs of chars and shorter texts; the function looks at no more than the first two characters)
// @fns parse_fill_and_align FormatAlign::parse
#[kani::proof]
#[kani::unwind(7)]
#[kani::stub(core::str::slice_error_fail, slice_error_fail_plain)]
fn c18_fill_and_align() {
    let c1: char = kani::any();
    let c2: char = kani::any();
    let n: usize = kani::any();
    kani::assume(n <= 2);
    let mut buf = [0u8; 9];
    let text = two_chars_then_z(c1, c2, n, &mut buf);
    let total = text.len();
    let (fill, align, rest) = parse_fill_and_align(text);
    let a1 = if n >= 1 { FormatAlign::from_char(c1) } else { None };
    let a2 = if n >= 2 { FormatAlign::from_char(c2) } else { None };
    if a2.is_some() {
        assert!(fill == Some(c1));
        assert!(align == a2);
        assert!(rest.len() == total - c1.len_utf8() - 1);
    } else if a1.is_some() {
        assert!(fill.is_none());
        assert!(align == a1);
        assert!(rest.len() == total - 1);
    } else {
        assert!(fill.is_none() && align.is_none());
        assert!(rest.len() == total);
    }
    kani::cover!(a2.is_some() && c1.len_utf8() == 3);
    kani::cover!(a2.is_none() && a1.is_some() && n == 2);
    kani::cover!(n == 0);
}

// @ob id=C18.k.parse_number props=C18,C03 kind=bounded tier=quick
// @bound ASCII texts of up to 4 characters (each any ASCII byte), i.e. widths up to 9999; the too-many-digits error path is not reached within this bound
// @clause width: the longest run of leading ASCII digits is the width (its decimal value) and exactly those digits are consumed; no digits means no width and nothing consumed
// @fns parse_number get_num_digits
#[kani::proof]
#[kani::unwind(7)]
#[kani::stub(core::str::slice_error_fail, slice_error_fail_plain)]
fn c18_parse_number() {
    let d: [u8; 4] = kani::any();
    let n: usize = kani::any();
    kani::assume(n <= 4);
    for i in 0..4 {
        kani::assume(d[i] < 128);
    }
    let text = unsafe { std::str::from_utf8_unchecked(&d[..n]) };
    let r = ManuallyDrop::new(parse_number(text));
    let mut k = 0;
    let mut v: usize = 0;
    for i in 0..4 {
        if i == k && i < n && d[i] >= b'0' && d[i] <= b'9' {
            v = v * 10 + (d[i] - b'0') as usize;
            k += 1;
        }
    }
    match &*r {
        Ok((num, rest)) => {
            assert!(rest.len() == n - k);
            if k == 0 {
                assert!(num.is_none());
            } else {
                assert!(*num == Some(v));
            }
        }
        Err(_) => assert!(false),
    }
    kani::cover!(k == 4);
    kani::cover!(k == 2 && n == 4);
}

// @ob id=C18.k.parse_precision props=C18,C03 kind=bounded tier=quick
// @bound ASCII texts of up to 4 characters
// @clause precision: '.' followed by digits is a precision with their value, consuming the dot and the digits; a '.' without digits, or no '.', gives no precision and consumes nothing
// @fns parse_precision parse_number
#[kani::proof]
#[kani::unwind(7)]
#[kani::stub(core::str::slice_error_fail, slice_error_fail_plain)]
fn c18_parse_precision() {
    let d: [u8; 4] = kani::any();
    let n: usize = kani::any();
    kani::assume(n <= 4);
    for i in 0..4 {
        kani::assume(d[i] < 128);
    }
    let text = unsafe { std::str::from_utf8_unchecked(&d[..n]) };
    let r = ManuallyDrop::new(parse_precision(text));
    let dot = n >= 1 && d[0] == b'.';
    let mut k = 1;
    let mut v: usize = 0;
    for i in 1..4 {
        if dot && i == k && i < n && d[i] >= b'0' && d[i] <= b'9' {
            v = v * 10 + (d[i] - b'0') as usize;
            k += 1;
        }
    }
    match &*r {
        Ok((p, rest)) => {
            if dot && k > 1 {
                assert!(*p == Some(v));
                assert!(rest.len() == n - k);
            } else {
                assert!(p.is_none());
                assert!(rest.len() == n);
            }
        }
        Err(_) => assert!(false),
    }
    kani::cover!(dot && k == 4);
    kani::cover!(dot && k == 1);
}

// @ob id=C20.k.canary props=C20 kind=canary
// @clause vacuity guard
// @fns FormatString::parse_literal_single
#[kani::proof]
#[kani::unwind(6)]
#[kani::stub(core::str::slice_error_fail, slice_error_fail_plain)]
fn c20_canary() {
    let c1: char = kani::any();
    let mut buf = [0u8; 9];
    let text = two_chars_then_z(c1, 'x', 1, &mut buf);
    let r = ManuallyDrop::new(FormatString::parse_literal_single(text));
    assert!(r.is_ok());
}

// ---------------------------------------------------------------------------------------------
// C18: grouping width

static mut AMS_CALLS: u32 = 0;
static mut AMS_INTER: i32 = 0;
static mut AMS_SEP: char = ' ';
static mut AMS_DIGITS: i32 = 0;
static mut AMS_LEN: usize = 0;

/// Recorder standing in for add_magnitude_separators_for_char (the String surgery itself).
fn ams_recorder(magnitude_str: String, inter: i32, sep: char, disp_digit_cnt: i32) -> String {
    unsafe {
        AMS_CALLS += 1;
        AMS_INTER = inter;
        AMS_SEP = sep;
        AMS_DIGITS = disp_digit_cnt;
        AMS_LEN = magnitude_str.len();
    }
    magnitude_str
}

/// add_magnitude_separators for one concrete (magnitude, prefix) pair; everything about the spec
/// stays symbolic.
fn grouping_case(mag: &'static str, prefix: &'static str) {
    let g = any_grouping();
    let ft_k: u8 = kani::any();
    kani::assume(ft_k < 5);
    let ft = match ft_k {
        0 => None,
        1 => Some(FormatType::Decimal),
        2 => Some(FormatType::Hex(any_case())),
        3 => Some(FormatType::Binary),
        _ => Some(FormatType::FixedPoint(any_case())),
    };
    let width: Option<usize> = kani::any();
    if let Some(w) = width {
        kani::assume(w <= 1000);
    }
    let fill_k: u8 = kani::any();
    kani::assume(fill_k < 3);
    let fill = match fill_k {
        0 => None,
        1 => Some('0'),
        _ => Some('*'),
    };
    let align = any_align();
    let spec = ManuallyDrop::new(FormatSpec {
        conversion: None,
        fill,
        align,
        sign: None,
        alternate_form: kani::any(),
        width,
        grouping_option: g,
        precision: None,
        format_type: ft,
    });
    let mag_len = mag.len();
    let plen = prefix.len();
    unsafe {
        AMS_CALLS = 0;
    }
    let out = ManuallyDrop::new(spec.add_magnitude_separators(String::from(mag), prefix));
    assert!(out.len() == mag_len);
    unsafe {
        if spec.grouping_option.is_none() {
            assert!(AMS_CALLS == 0);
        } else {
            assert!(AMS_CALLS == 1);
            assert!(AMS_LEN == mag_len);
            assert!(AMS_SEP == if spec.grouping_option == Some(FormatGrouping::Comma) { ',' } else { '_' });
            assert!(AMS_INTER == if ft_k == 2 || ft_k == 3 { 4 } else { 3 });
            // sign-aware zero padding: the 0 flag (a '0' fill without an alignment - an explicit fill always has one) or '0='
            let zero_padded = fill == Some('0') && (align.is_none() || align == Some(FormatAlign::AfterSign));
            let expect = match width {
                Some(w) if zero_padded && w as i32 - plen as i32 > mag_len as i32 => w as i32 - plen as i32,
                _ => mag_len as i32,
            };
            assert!(AMS_DIGITS == expect);
        }
    }
    kani::cover!(unsafe { AMS_CALLS == 1 && AMS_DIGITS > 4 });
    kani::cover!(unsafe { AMS_CALLS == 1 } && width.is_some() && fill.is_none());
}

// @ob id=C18.k.grouping_digit_count props=C18 kind=complete tier=quick
// @clause ',' and '_' grouping at the right interval with width-driven zero padding: the number of digit positions handed to the grouping step is the magnitude's own length, except for sign-aware zero padding (the 0 flag, or fill '0' with '=' alignment), where it is max(width - len(sign and base prefix), length); the separator and interval are those of the spec; without a grouping option the magnitude is returned untouched (all widths <= 1000, fills, alignments, types; magnitude/prefix pairs "7"/"", "1234"/"", "1234"/"-", "1234"/"-0x", "12"/"0x" - the function only uses their lengths)
// @fns FormatSpec::add_magnitude_separators FormatSpec::get_separator_interval
#[kani::proof]
#[kani::unwind(6)]
#[kani::stub(FormatSpec::add_magnitude_separators_for_char, ams_recorder)]
fn c18_grouping_digit_count() {
    grouping_case("7", "");
    grouping_case("1234", "");
    grouping_case("1234", "-");
    grouping_case("1234", "-0x");
    grouping_case("12", "0x");
}

fn any_align() -> Option<FormatAlign> {
    let k: u8 = kani::any();
    kani::assume(k < 5);
    match k {
        0 => None,
        1 => Some(FormatAlign::Left),
        2 => Some(FormatAlign::Right),
        3 => Some(FormatAlign::AfterSign),
        _ => Some(FormatAlign::Center),
    }
}




// @ob id=C18.k.conversion_parse props=C18,C20,C03 kind=complete tier=quick
// @clause conversion prefix: '!' followed by one of s r a b is a conversion and exactly those two characters are consumed (cut on character boundaries); anything else - also '!' followed by another character, or a lone '!' - consumes nothing (all pairs of chars and shorter texts)
// @fns FormatConversion::parse FormatConversion::from_string FormatConversion::from_char
#[kani::proof]
#[kani::unwind(7)]
#[kani::stub(core::str::slice_error_fail, slice_error_fail_plain)]
fn c18_conversion_parse() {
    let c1: char = kani::any();
    let c2: char = kani::any();
    let n: usize = kani::any();
    kani::assume(n <= 2);
    let mut buf = [0u8; 9];
    let text = two_chars_then_z(c1, c2, n, &mut buf);
    let total = text.len();
    let (conv, rest) = FormatConversion::parse(text);
    let expect = if n == 2 && c1 == '!' { FormatConversion::from_char(c2) } else { None };
    assert!(conv == expect);
    if expect.is_some() {
        assert!(rest.len() == total - 2);
        assert!(rest.len() == 1 && rest.as_bytes()[0] == b'Z');
    } else {
        assert!(rest.len() == total);
    }
    kani::cover!(expect.is_some());
    kani::cover!(n == 2 && c1 == '!' && expect.is_none());
    kani::cover!(n == 1 && c1 == '!');
}

// ---------------------------------------------------------------------------------------------
// C20: field-name splitting (FieldName::parse): the index reader on its own for every short ASCII text, and
// the splitter per class layout (generated family at the end of this file).

/// Python's get_integer restricted to ASCII: a non-empty run of ASCII digits that fits.
fn parse_index_model(t: &str) -> Option<usize> {
    let b = t.as_bytes();
    if b.is_empty() {
        return None;
    }
    let mut v: usize = 0;
    let mut i = 0;
    while i < b.len() {
        if !b[i].is_ascii_digit() {
            return None;
        }
        v = v.checked_mul(10)?.checked_add((b[i] - b'0') as usize)?;
        i += 1;
    }
    Some(v)
}

macro_rules! parse_index_family {
    ($name:ident, $n:expr) => {
        #[kani::proof]
        #[kani::unwind(6)]
        fn $name() {
            let buf: [u8; $n] = kani::any();
            let mut i = 0;
            while i < $n {
                kani::assume(buf[i] < 128);
                i += 1;
            }
            let text = unsafe { std::str::from_utf8_unchecked(&buf) };
            let real = parse_index(text);
            let model = parse_index_model(text);
            assert!(real == model);
            // the model's own meaning, spelled out for the cases that matter (F7: a sign is not a digit)
            if buf[0] == b'+' || buf[0] == b'-' {
                assert!(real.is_none());
            }
            kani::cover!(real.is_some());
            kani::cover!(real.is_none());
        }
    };
}

// @ob id=C20.k.parse_index_1 props=C20 kind=complete tier=quick
// @clause an index text of one ASCII character is a number exactly when it is a digit, with that value (all 128 texts)
// @fns parse_index
parse_index_family!(c20_parse_index_1, 1);

// @ob id=C20.k.parse_index_2 props=C20 kind=bounded tier=quick
// @bound all ASCII texts of 2 characters
// @clause an index text is a number exactly when it is a non-empty run of ASCII digits (no sign: '+1' is a key), with its decimal value
// @fns parse_index
parse_index_family!(c20_parse_index_2, 2);

// @ob id=C20.k.parse_index_3 props=C20 kind=bounded tier=quick
// @bound all ASCII texts of 3 characters
// @clause an index text is a number exactly when it is a non-empty run of ASCII digits (no sign), with its decimal value
// @fns parse_index
parse_index_family!(c20_parse_index_3, 3);

/// One byte of a field name by class: 0 '.', 1 '[', 2 ']', 3 any ASCII digit, 4 any other ASCII character.
/// The five classes partition ASCII, so the family over all class layouts of a length is every ASCII text of
/// that length.
fn field_name_byte(class: u8) -> u8 {
    match class {
        0 => b'.',
        1 => b'[',
        2 => b']',
        3 => {
            let d: u8 = kani::any();
            kani::assume(d < 10);
            b'0' + d
        }
        _ => {
            let x: u8 = kani::any();
            kani::assume(x < 128 && x != b'.' && x != b'[' && x != b']' && !x.is_ascii_digit());
            x
        }
    }
}

// ---------------------------------------------------------------------------------------------
// C18: the spec parser as a whole (short texts)

/// Python's format-spec grammar [[fill]align][sign][#][0][width][grouping][.precision][type] read off a short
/// ASCII text by a plain scan: Ok(fill, align, sign, alternate, width, grouping, precision, type char) or Err.
/// Numbers are read as decimal values; fields the text does not have are None.
#[allow(clippy::type_complexity)]
fn spec_oracle(b: &[u8]) -> Result<(Option<u8>, Option<u8>, Option<u8>, bool, Option<usize>, Option<u8>, Option<usize>, Option<u8>), ()> {
    let n = b.len();
    let is_align = |c: u8| c == b'<' || c == b'>' || c == b'=' || c == b'^';
    let mut i = 0;
    let mut fill = None;
    let mut align = None;
    if n >= 2 && is_align(b[1]) {
        fill = Some(b[0]);
        align = Some(b[1]);
        i = 2;
    } else if n >= 1 && is_align(b[0]) {
        align = Some(b[0]);
        i = 1;
    }
    let mut sign = None;
    if i < n && (b[i] == b'+' || b[i] == b'-' || b[i] == b' ') {
        sign = Some(b[i]);
        i += 1;
    }
    let mut alt = false;
    if i < n && b[i] == b'#' {
        alt = true;
        i += 1;
    }
    // the 0 flag: a '0' fill unless a fill was given; the alignment is left to the value's type
    if i < n && b[i] == b'0' {
        if fill.is_none() {
            fill = Some(b'0');
        }
        i += 1;
    }
    let mut width = None;
    while i < n && b[i].is_ascii_digit() {
        width = Some(width.unwrap_or(0) * 10 + (b[i] - b'0') as usize);
        i += 1;
    }
    let mut grouping = None;
    if i < n && (b[i] == b',' || b[i] == b'_') {
        grouping = Some(b[i]);
        i += 1;
    }
    let mut precision = None;
    if i < n && b[i] == b'.' {
        i += 1;
        if !(i < n && b[i].is_ascii_digit()) {
            return Err(()); // "Format specifier missing precision"
        }
        while i < n && b[i].is_ascii_digit() {
            precision = Some(precision.unwrap_or(0) * 10 + (b[i] - b'0') as usize);
            i += 1;
        }
    }
    let mut ty = None;
    if i < n {
        match b[i] {
            b's' | b'b' | b'c' | b'd' | b'o' | b'n' | b'N' | b'x' | b'X' | b'e' | b'E' | b'f' | b'F' | b'g' | b'G' | b'%' => {
                ty = Some(b[i]);
                i += 1;
            }
            _ => return Err(()), // "Invalid format specifier" / unknown format code
        }
    }
    if i < n {
        return Err(());
    }
    Ok((fill, align, sign, alt, width, grouping, precision, ty))
}

macro_rules! spec_parse_family {
    ($name:ident, $n:expr, $unwind:expr) => {
        #[kani::proof]
        #[kani::unwind($unwind)]
        #[kani::stub(core::str::slice_error_fail, slice_error_fail_plain)]
        fn $name() {
            let buf: [u8; $n] = kani::any();
            let mut k = 0;
            while k < $n {
                // '!' starts RustPython's own conversion prefix inside a spec, which Python does not have
                kani::assume(buf[k] < 128 && buf[k] != b'!');
                k += 1;
            }
            let text = unsafe { std::str::from_utf8_unchecked(&buf) };
            let r = ManuallyDrop::new(FormatSpec::parse(text));
            match (&*r, spec_oracle(&buf)) {
                (Ok(s), Ok((fill, align, sign, alt, width, grouping, precision, ty))) => {
                    assert!(s.fill == fill.map(|c| c as char));
                    assert!(s.align == align.and_then(|c| FormatAlign::from_char(c as char)));
                    assert!(s.align.is_some() == align.is_some());
                    assert!(s.sign == match sign { None => None, Some(b'+') => Some(FormatSign::Plus), Some(b'-') => Some(FormatSign::Minus), _ => Some(FormatSign::MinusOrSpace) });
                    assert!(s.alternate_form == alt);
                    assert!(s.width == width);
                    assert!(s.grouping_option == match grouping { None => None, Some(b',') => Some(FormatGrouping::Comma), _ => Some(FormatGrouping::Underscore) });
                    assert!(s.precision == precision);
                    assert!(s.format_type.as_ref().map(char::from) == ty.map(|c| c as char));
                    assert!(s.conversion.is_none());
                }
                (Err(_), Err(())) => {}
                _ => assert!(false, "FormatSpec::parse and Python's grammar disagree on whether the spec is well formed"),
            }
            kani::cover!(r.is_ok());
            kani::cover!(r.is_err());
        }
    };
}

// @ob id=C18.k.spec_parse_1 props=C18 kind=complete tier=quick
// @clause parsing a spec of one ASCII character yields Python's fields (all 127 texts without '!')
// @fns FormatSpec::parse
spec_parse_family!(c18_spec_parse_1, 1, 4);

// @ob id=C18.k.spec_parse_2 props=C18 kind=bounded tier=quick
// @bound all ASCII specs of 2 characters (without '!')
// @clause parsing a format spec yields Python's fields: [[fill]align][sign][#][0][width][grouping][.precision][type] in this order, the 0 flag is a '0' fill unless a fill was given (whatever the alignment) and leaves the alignment to the value's type, a '.' needs digits, leftovers are rejected
// @fns FormatSpec::parse
spec_parse_family!(c18_spec_parse_2, 2, 5);

// @ob id=C18.k.spec_parse_3 props=C18 kind=bounded tier=quick
// @bound all ASCII specs of 3 characters (without '!')
// @clause parsing a format spec yields Python's fields (same clause as C18.k.spec_parse_2)
// @fns FormatSpec::parse
spec_parse_family!(c18_spec_parse_3, 3, 6);

// @ob id=C18.k.spec_parse_4 props=C18 kind=bounded tier=quick timeout=900
// @bound all ASCII specs of 4 characters (without '!')
// @clause parsing a format spec yields Python's fields (same clause as C18.k.spec_parse_2)
// @fns FormatSpec::parse
spec_parse_family!(c18_spec_parse_4, 4, 7);

// @ob id=C18.k.spec_parse_5 props=C18 kind=bounded tier=quick timeout=900
// @bound all ASCII specs of 5 characters (without '!')
// @clause parsing a format spec yields Python's fields (same clause as C18.k.spec_parse_2)
// @fns FormatSpec::parse
spec_parse_family!(c18_spec_parse_5, 5, 8);

// @ob id=C18.k.spec_parse_6 props=C18 kind=bounded tier=thorough timeout=1800
// @bound all ASCII specs of 6 characters (without '!')
// @clause parsing a format spec yields Python's fields (same clause as C18.k.spec_parse_2)
// @fns FormatSpec::parse
spec_parse_family!(c18_spec_parse_6, 6, 9);

// @ob id=C18.k.spec_parse_7 props=C18 kind=bounded tier=thorough timeout=1800
// @bound all ASCII specs of 7 characters (without '!')
// @clause parsing a format spec yields Python's fields (same clause as C18.k.spec_parse_2)
// @fns FormatSpec::parse
spec_parse_family!(c18_spec_parse_7, 7, 10);

// ---------------------------------------------------------------------------------------------
// Decimal digits as Python reads them in format strings: Py_UNICODE_TODECIMAL, i.e. every character of
// category Nd, not only ASCII (format(5, '\u{661}\u{660}') pads to width 10; '{\u{661}}' is positional index 1).

/// First character (digit zero) of each of the 66 decimal-digit blocks of Unicode 14 (generated from CPython
/// 3.11's unicodedata: every character with a decimal value sits at zero + value in one of these blocks).
const PY_DECIMAL_ZEROS: [u32; 66] = [
    0x30, 0x660, 0x6f0, 0x7c0, 0x966, 0x9e6, 0xa66, 0xae6, 0xb66, 0xbe6, 0xc66,
    0xce6, 0xd66, 0xde6, 0xe50, 0xed0, 0xf20, 0x1040, 0x1090, 0x17e0, 0x1810, 0x1946,
    0x19d0, 0x1a80, 0x1a90, 0x1b50, 0x1bb0, 0x1c40, 0x1c50, 0xa620, 0xa8d0, 0xa900, 0xa9d0,
    0xa9f0, 0xaa50, 0xabf0, 0xff10, 0x104a0, 0x10d30, 0x11066, 0x110f0, 0x11136, 0x111d0, 0x112f0,
    0x11450, 0x114d0, 0x11650, 0x116c0, 0x11730, 0x118e0, 0x11950, 0x11c50, 0x11d50, 0x11da0, 0x16a60,
    0x16ac0, 0x16b50, 0x1d7ce, 0x1d7d8, 0x1d7e2, 0x1d7ec, 0x1d7f6, 0x1e140, 0x1e2f0, 0x1e950, 0x1fbf0,
];

fn py_decimal(c: char) -> Option<u32> {
    let cp = c as u32;
    let mut i = 0;
    while i < 66 {
        let z = PY_DECIMAL_ZEROS[i];
        if cp >= z && cp < z + 10 {
            return Some(cp - z);
        }
        i += 1;
    }
    None
}

// @ob id=C18.k.width_digit_class props=C18 kind=complete tier=quick
// @clause the characters that start a width / precision are exactly the characters Python reads as decimal digits there (every char: ASCII digits, and the non-ASCII decimal digits Python's parser also accepts)
// @fns get_num_digits
#[kani::proof]
#[kani::unwind(68)]
fn c18_width_digit_class() {
    let c: char = kani::any();
    let mut buf = [0u8; 4];
    let text: &str = c.encode_utf8(&mut buf);
    let n = get_num_digits(text);
    assert!(n == 0 || n == c.len_utf8());
    let python = py_decimal(c);
    if c.is_ascii() {
        assert!((n > 0) == c.is_ascii_digit(), "ASCII: a width starts exactly at an ASCII digit");
        assert!(python.is_some() == c.is_ascii_digit());
    } else {
        assert!((n > 0) == python.is_some(), "F9 non-ASCII decimal digit is not read as a width digit");
    }
    kani::cover!(n > 0);
    kani::cover!(!c.is_ascii() && python.is_some());
}

// @ob id=C20.k.index_digit_class props=C20 kind=complete tier=quick
// @clause a one-character index text is a number exactly when Python reads the character as a decimal digit, with that value (every char; a sign is not a digit)
// @fns parse_index
#[kani::proof]
#[kani::unwind(68)]
fn c20_index_digit_class() {
    let c: char = kani::any();
    let mut buf = [0u8; 4];
    let text: &str = c.encode_utf8(&mut buf);
    let r = parse_index(text);
    let python = py_decimal(c);
    if c.is_ascii() {
        assert!(r == python.map(|d| d as usize), "ASCII: an index is exactly an ASCII digit");
        assert!(python.is_some() == c.is_ascii_digit());
    } else {
        assert!(r == python.map(|d| d as usize), "F8 non-ASCII decimal digit is not read as an index");
    }
    kani::cover!(r.is_some());
    kani::cover!(!c.is_ascii() && python.is_some());
}

// ---- generated layout family (lib/gen_field_name.py) ----
// GENERATED by lib/gen_field_name.py (oracle validated against CPython on 9331 texts) - do not edit by hand

// @ob id=C20.k.field_name_dot props=C20 kind=bounded tier=quick timeout=600
// @bound every ASCII field name of the layout '.' (DIGIT any ASCII digit, OTHER any ASCII character other than . [ ] and digits); the 5 one-character layouts together are all 128 one-character ASCII names
// @clause splitting a field name yields Python's head (an empty head before accessors is automatic numbering, ASCII digits are an index, anything else a keyword), Python's chain of attribute / index accessors and Python's rejections - for this layout: rejected: EmptyAttribute
// @fns FieldName::parse FieldNamePart::parse_part parse_index
#[kani::proof]
#[kani::unwind(3)]
#[kani::stub(core::str::slice_error_fail, slice_error_fail_plain)]
fn c20_field_name_dot() {
    let buf: [u8; 1] = [field_name_byte(0)];
    let text = unsafe { std::str::from_utf8_unchecked(&buf) };
    let r = ManuallyDrop::new(FieldName::parse(text));
    assert!(matches!(&*r, Err(FormatParseError::EmptyAttribute)));
}

// @ob id=C20.k.field_name_lb props=C20 kind=bounded tier=quick timeout=600
// @bound every ASCII field name of the layout '[' (DIGIT any ASCII digit, OTHER any ASCII character other than . [ ] and digits); the 5 one-character layouts together are all 128 one-character ASCII names
// @clause splitting a field name yields Python's head (an empty head before accessors is automatic numbering, ASCII digits are an index, anything else a keyword), Python's chain of attribute / index accessors and Python's rejections - for this layout: rejected: MissingRightBracket
// @fns FieldName::parse FieldNamePart::parse_part parse_index
#[kani::proof]
#[kani::unwind(3)]
#[kani::stub(core::str::slice_error_fail, slice_error_fail_plain)]
fn c20_field_name_lb() {
    let buf: [u8; 1] = [field_name_byte(1)];
    let text = unsafe { std::str::from_utf8_unchecked(&buf) };
    let r = ManuallyDrop::new(FieldName::parse(text));
    assert!(matches!(&*r, Err(FormatParseError::MissingRightBracket)));
}

// @ob id=C20.k.field_name_rb props=C20 kind=bounded tier=quick timeout=600
// @bound every ASCII field name of the layout ']' (DIGIT any ASCII digit, OTHER any ASCII character other than . [ ] and digits); the 5 one-character layouts together are all 128 one-character ASCII names
// @clause splitting a field name yields Python's head (an empty head before accessors is automatic numbering, ASCII digits are an index, anything else a keyword), Python's chain of attribute / index accessors and Python's rejections - for this layout: head kw[0..1]; accessors none
// @fns FieldName::parse FieldNamePart::parse_part parse_index
#[kani::proof]
#[kani::unwind(3)]
#[kani::stub(core::str::slice_error_fail, slice_error_fail_plain)]
fn c20_field_name_rb() {
    let buf: [u8; 1] = [field_name_byte(2)];
    let text = unsafe { std::str::from_utf8_unchecked(&buf) };
    let r = ManuallyDrop::new(FieldName::parse(text));
    match &*r {
        Ok(f) => {
            assert!(matches!(&f.field_type, FieldType::Keyword(k) if k.len() == 1 && k.as_bytes()[0] == buf[0]));
            assert!(f.parts.len() == 0);
        }
        Err(_) => assert!(false, "Python accepts this field name"),
    }
}

// @ob id=C20.k.field_name_d props=C20 kind=bounded tier=quick timeout=600
// @bound every ASCII field name of the layout DIGIT (DIGIT any ASCII digit, OTHER any ASCII character other than . [ ] and digits); the 5 one-character layouts together are all 128 one-character ASCII names
// @clause splitting a field name yields Python's head (an empty head before accessors is automatic numbering, ASCII digits are an index, anything else a keyword), Python's chain of attribute / index accessors and Python's rejections - for this layout: head index[0..1]; accessors none
// @fns FieldName::parse FieldNamePart::parse_part parse_index
#[kani::proof]
#[kani::unwind(3)]
#[kani::stub(core::str::slice_error_fail, slice_error_fail_plain)]
fn c20_field_name_d() {
    let buf: [u8; 1] = [field_name_byte(3)];
    let text = unsafe { std::str::from_utf8_unchecked(&buf) };
    let r = ManuallyDrop::new(FieldName::parse(text));
    match &*r {
        Ok(f) => {
            assert!(matches!(&f.field_type, FieldType::Index(v) if *v == (0usize * 10 + (buf[0] - b'0') as usize)));
            assert!(f.parts.len() == 0);
        }
        Err(_) => assert!(false, "Python accepts this field name"),
    }
}

// @ob id=C20.k.field_name_x props=C20 kind=bounded tier=quick timeout=600
// @bound every ASCII field name of the layout OTHER (DIGIT any ASCII digit, OTHER any ASCII character other than . [ ] and digits); the 5 one-character layouts together are all 128 one-character ASCII names
// @clause splitting a field name yields Python's head (an empty head before accessors is automatic numbering, ASCII digits are an index, anything else a keyword), Python's chain of attribute / index accessors and Python's rejections - for this layout: head kw[0..1]; accessors none
// @fns FieldName::parse FieldNamePart::parse_part parse_index
#[kani::proof]
#[kani::unwind(3)]
#[kani::stub(core::str::slice_error_fail, slice_error_fail_plain)]
fn c20_field_name_x() {
    let buf: [u8; 1] = [field_name_byte(4)];
    let text = unsafe { std::str::from_utf8_unchecked(&buf) };
    let r = ManuallyDrop::new(FieldName::parse(text));
    match &*r {
        Ok(f) => {
            assert!(matches!(&f.field_type, FieldType::Keyword(k) if k.len() == 1 && k.as_bytes()[0] == buf[0]));
            assert!(f.parts.len() == 0);
        }
        Err(_) => assert!(false, "Python accepts this field name"),
    }
}

// @ob id=C20.k.field_name_dot_dot props=C20 kind=bounded tier=quick timeout=600
// @bound every ASCII field name of the layout '.' '.' (DIGIT any ASCII digit, OTHER any ASCII character other than . [ ] and digits); together with the other layouts starting with '.' or '[' these are all ASCII names of 2 characters with an empty head
// @clause splitting a field name yields Python's head (an empty head before accessors is automatic numbering, ASCII digits are an index, anything else a keyword), Python's chain of attribute / index accessors and Python's rejections - for this layout: rejected: EmptyAttribute
// @fns FieldName::parse FieldNamePart::parse_part parse_index
#[kani::proof]
#[kani::unwind(4)]
#[kani::stub(core::str::slice_error_fail, slice_error_fail_plain)]
fn c20_field_name_dot_dot() {
    let buf: [u8; 2] = [field_name_byte(0), field_name_byte(0)];
    let text = unsafe { std::str::from_utf8_unchecked(&buf) };
    let r = ManuallyDrop::new(FieldName::parse(text));
    assert!(matches!(&*r, Err(FormatParseError::EmptyAttribute)));
}

// @ob id=C20.k.field_name_dot_lb props=C20 kind=bounded tier=quick timeout=600
// @bound every ASCII field name of the layout '.' '[' (DIGIT any ASCII digit, OTHER any ASCII character other than . [ ] and digits); together with the other layouts starting with '.' or '[' these are all ASCII names of 2 characters with an empty head
// @clause splitting a field name yields Python's head (an empty head before accessors is automatic numbering, ASCII digits are an index, anything else a keyword), Python's chain of attribute / index accessors and Python's rejections - for this layout: rejected: EmptyAttribute
// @fns FieldName::parse FieldNamePart::parse_part parse_index
#[kani::proof]
#[kani::unwind(4)]
#[kani::stub(core::str::slice_error_fail, slice_error_fail_plain)]
fn c20_field_name_dot_lb() {
    let buf: [u8; 2] = [field_name_byte(0), field_name_byte(1)];
    let text = unsafe { std::str::from_utf8_unchecked(&buf) };
    let r = ManuallyDrop::new(FieldName::parse(text));
    assert!(matches!(&*r, Err(FormatParseError::EmptyAttribute)));
}

// @ob id=C20.k.field_name_dot_rb props=C20 kind=bounded tier=quick timeout=600
// @bound every ASCII field name of the layout '.' ']' (DIGIT any ASCII digit, OTHER any ASCII character other than . [ ] and digits); together with the other layouts starting with '.' or '[' these are all ASCII names of 2 characters with an empty head
// @clause splitting a field name yields Python's head (an empty head before accessors is automatic numbering, ASCII digits are an index, anything else a keyword), Python's chain of attribute / index accessors and Python's rejections - for this layout: head auto; accessors attr[1..2]
// @fns FieldName::parse FieldNamePart::parse_part parse_index
#[kani::proof]
#[kani::unwind(4)]
#[kani::stub(core::str::slice_error_fail, slice_error_fail_plain)]
fn c20_field_name_dot_rb() {
    let buf: [u8; 2] = [field_name_byte(0), field_name_byte(2)];
    let text = unsafe { std::str::from_utf8_unchecked(&buf) };
    let r = ManuallyDrop::new(FieldName::parse(text));
    match &*r {
        Ok(f) => {
            assert!(matches!(&f.field_type, FieldType::Auto));
            assert!(f.parts.len() == 1);
            assert!(matches!(&f.parts[0], FieldNamePart::Attribute(a) if a.len() == 1 && a.as_bytes()[0] == buf[1]));
        }
        Err(_) => assert!(false, "Python accepts this field name"),
    }
}

// @ob id=C20.k.field_name_dot_d props=C20 kind=bounded tier=quick timeout=600
// @bound every ASCII field name of the layout '.' DIGIT (DIGIT any ASCII digit, OTHER any ASCII character other than . [ ] and digits); together with the other layouts starting with '.' or '[' these are all ASCII names of 2 characters with an empty head
// @clause splitting a field name yields Python's head (an empty head before accessors is automatic numbering, ASCII digits are an index, anything else a keyword), Python's chain of attribute / index accessors and Python's rejections - for this layout: head auto; accessors attr[1..2]
// @fns FieldName::parse FieldNamePart::parse_part parse_index
#[kani::proof]
#[kani::unwind(4)]
#[kani::stub(core::str::slice_error_fail, slice_error_fail_plain)]
fn c20_field_name_dot_d() {
    let buf: [u8; 2] = [field_name_byte(0), field_name_byte(3)];
    let text = unsafe { std::str::from_utf8_unchecked(&buf) };
    let r = ManuallyDrop::new(FieldName::parse(text));
    match &*r {
        Ok(f) => {
            assert!(matches!(&f.field_type, FieldType::Auto));
            assert!(f.parts.len() == 1);
            assert!(matches!(&f.parts[0], FieldNamePart::Attribute(a) if a.len() == 1 && a.as_bytes()[0] == buf[1]));
        }
        Err(_) => assert!(false, "Python accepts this field name"),
    }
}

// @ob id=C20.k.field_name_dot_x props=C20 kind=bounded tier=quick timeout=600
// @bound every ASCII field name of the layout '.' OTHER (DIGIT any ASCII digit, OTHER any ASCII character other than . [ ] and digits); together with the other layouts starting with '.' or '[' these are all ASCII names of 2 characters with an empty head
// @clause splitting a field name yields Python's head (an empty head before accessors is automatic numbering, ASCII digits are an index, anything else a keyword), Python's chain of attribute / index accessors and Python's rejections - for this layout: head auto; accessors attr[1..2]
// @fns FieldName::parse FieldNamePart::parse_part parse_index
#[kani::proof]
#[kani::unwind(4)]
#[kani::stub(core::str::slice_error_fail, slice_error_fail_plain)]
fn c20_field_name_dot_x() {
    let buf: [u8; 2] = [field_name_byte(0), field_name_byte(4)];
    let text = unsafe { std::str::from_utf8_unchecked(&buf) };
    let r = ManuallyDrop::new(FieldName::parse(text));
    match &*r {
        Ok(f) => {
            assert!(matches!(&f.field_type, FieldType::Auto));
            assert!(f.parts.len() == 1);
            assert!(matches!(&f.parts[0], FieldNamePart::Attribute(a) if a.len() == 1 && a.as_bytes()[0] == buf[1]));
        }
        Err(_) => assert!(false, "Python accepts this field name"),
    }
}

// @ob id=C20.k.field_name_lb_dot props=C20 kind=bounded tier=quick timeout=600
// @bound every ASCII field name of the layout '[' '.' (DIGIT any ASCII digit, OTHER any ASCII character other than . [ ] and digits); together with the other layouts starting with '.' or '[' these are all ASCII names of 2 characters with an empty head
// @clause splitting a field name yields Python's head (an empty head before accessors is automatic numbering, ASCII digits are an index, anything else a keyword), Python's chain of attribute / index accessors and Python's rejections - for this layout: rejected: MissingRightBracket
// @fns FieldName::parse FieldNamePart::parse_part parse_index
#[kani::proof]
#[kani::unwind(4)]
#[kani::stub(core::str::slice_error_fail, slice_error_fail_plain)]
fn c20_field_name_lb_dot() {
    let buf: [u8; 2] = [field_name_byte(1), field_name_byte(0)];
    let text = unsafe { std::str::from_utf8_unchecked(&buf) };
    let r = ManuallyDrop::new(FieldName::parse(text));
    assert!(matches!(&*r, Err(FormatParseError::MissingRightBracket)));
}

// @ob id=C20.k.field_name_lb_lb props=C20 kind=bounded tier=quick timeout=600
// @bound every ASCII field name of the layout '[' '[' (DIGIT any ASCII digit, OTHER any ASCII character other than . [ ] and digits); together with the other layouts starting with '.' or '[' these are all ASCII names of 2 characters with an empty head
// @clause splitting a field name yields Python's head (an empty head before accessors is automatic numbering, ASCII digits are an index, anything else a keyword), Python's chain of attribute / index accessors and Python's rejections - for this layout: rejected: MissingRightBracket
// @fns FieldName::parse FieldNamePart::parse_part parse_index
#[kani::proof]
#[kani::unwind(4)]
#[kani::stub(core::str::slice_error_fail, slice_error_fail_plain)]
fn c20_field_name_lb_lb() {
    let buf: [u8; 2] = [field_name_byte(1), field_name_byte(1)];
    let text = unsafe { std::str::from_utf8_unchecked(&buf) };
    let r = ManuallyDrop::new(FieldName::parse(text));
    assert!(matches!(&*r, Err(FormatParseError::MissingRightBracket)));
}

// @ob id=C20.k.field_name_lb_rb props=C20 kind=bounded tier=quick timeout=600
// @bound every ASCII field name of the layout '[' ']' (DIGIT any ASCII digit, OTHER any ASCII character other than . [ ] and digits); together with the other layouts starting with '.' or '[' these are all ASCII names of 2 characters with an empty head
// @clause splitting a field name yields Python's head (an empty head before accessors is automatic numbering, ASCII digits are an index, anything else a keyword), Python's chain of attribute / index accessors and Python's rejections - for this layout: rejected: EmptyAttribute
// @fns FieldName::parse FieldNamePart::parse_part parse_index
#[kani::proof]
#[kani::unwind(4)]
#[kani::stub(core::str::slice_error_fail, slice_error_fail_plain)]
fn c20_field_name_lb_rb() {
    let buf: [u8; 2] = [field_name_byte(1), field_name_byte(2)];
    let text = unsafe { std::str::from_utf8_unchecked(&buf) };
    let r = ManuallyDrop::new(FieldName::parse(text));
    assert!(matches!(&*r, Err(FormatParseError::EmptyAttribute)));
}

// @ob id=C20.k.field_name_lb_d props=C20 kind=bounded tier=quick timeout=600
// @bound every ASCII field name of the layout '[' DIGIT (DIGIT any ASCII digit, OTHER any ASCII character other than . [ ] and digits); together with the other layouts starting with '.' or '[' these are all ASCII names of 2 characters with an empty head
// @clause splitting a field name yields Python's head (an empty head before accessors is automatic numbering, ASCII digits are an index, anything else a keyword), Python's chain of attribute / index accessors and Python's rejections - for this layout: rejected: MissingRightBracket
// @fns FieldName::parse FieldNamePart::parse_part parse_index
#[kani::proof]
#[kani::unwind(4)]
#[kani::stub(core::str::slice_error_fail, slice_error_fail_plain)]
fn c20_field_name_lb_d() {
    let buf: [u8; 2] = [field_name_byte(1), field_name_byte(3)];
    let text = unsafe { std::str::from_utf8_unchecked(&buf) };
    let r = ManuallyDrop::new(FieldName::parse(text));
    assert!(matches!(&*r, Err(FormatParseError::MissingRightBracket)));
}

// @ob id=C20.k.field_name_lb_x props=C20 kind=bounded tier=quick timeout=600
// @bound every ASCII field name of the layout '[' OTHER (DIGIT any ASCII digit, OTHER any ASCII character other than . [ ] and digits); together with the other layouts starting with '.' or '[' these are all ASCII names of 2 characters with an empty head
// @clause splitting a field name yields Python's head (an empty head before accessors is automatic numbering, ASCII digits are an index, anything else a keyword), Python's chain of attribute / index accessors and Python's rejections - for this layout: rejected: MissingRightBracket
// @fns FieldName::parse FieldNamePart::parse_part parse_index
#[kani::proof]
#[kani::unwind(4)]
#[kani::stub(core::str::slice_error_fail, slice_error_fail_plain)]
fn c20_field_name_lb_x() {
    let buf: [u8; 2] = [field_name_byte(1), field_name_byte(4)];
    let text = unsafe { std::str::from_utf8_unchecked(&buf) };
    let r = ManuallyDrop::new(FieldName::parse(text));
    assert!(matches!(&*r, Err(FormatParseError::MissingRightBracket)));
}

// ---- end of generated layout family ----
