// Verus unit: literal/src/float.rs strip_underlines (C17: "underscores only between digits").
// The function body below the SIG block is copied from /repo on every run.
use vstd::prelude::*;
verus! {

pub open spec fn is_digit(b: u8) -> bool { 48 <= b <= 57 }

/// From the property statement (Python's float() grammar): an underscore is legal only between
/// two digits.
pub open spec fn legal(s: Seq<u8>) -> bool {
    forall|i: int| 0 <= i < s.len() && #[trigger] s[i] == 95u8 ==>
        (i > 0 && is_digit(s[i - 1]) && i + 1 < s.len() && is_digit(s[i + 1]))
}

/// The text with every underscore removed, order preserved.
pub open spec fn strip(s: Seq<u8>) -> Seq<u8>
    decreases s.len()
{
    if s.len() == 0 {
        Seq::<u8>::empty()
    } else if s.last() == 95u8 {
        strip(s.drop_last())
    } else {
        strip(s.drop_last()).push(s.last())
    }
}

pub assume_specification [u8::is_ascii_digit] (b: &u8) -> (r: bool)
    ensures r == is_digit(*b);

//@@ EXTRACT file=literal/src/float.rs anchor=<<<fn strip_underlines(literal: &[u8]) -> Option<Vec<u8>> {>>>
//@@ SIG
fn strip_underlines(literal: &[u8]) -> (r: Option<Vec<u8>>)
    ensures
        r.is_some() <==> legal(literal@),
        r.is_some() ==> r.unwrap()@ == strip(literal@),
//@@ ENDSIG
//@@ NAME prev <<<let mut (\w+) = b'\\0';>>>
//@@ NAME dup <<<let mut (\w+) = Vec::<u8>::new\(\);>>>
//@@ SUB 1 <<<for p in literal {>>> ==> <<<for p in it: literal>>>
//@@ AFTER 1 <<<for p in it: literal>>>
        invariant
            (it.index@ == 0 ==> $prev$ == 0u8),
            (it.index@ > 0 ==> $prev$ == literal@[it.index@ - 1]),
            // everything before the cursor is legal, except that an underscore at the very end still awaits its right neighbour
            forall|k: int| 0 <= k < it.index@ && #[trigger] literal@[k] == 95u8 ==>
                (k > 0 && is_digit(literal@[k - 1]) && (k + 1 < it.index@ ==> is_digit(literal@[k + 1]))),
            $dup$@ == strip(literal@.take(it.index@ as int)),
    {
        proof {
            let i = it.index@ as int;
            assert(literal@.take(i + 1).drop_last() =~= literal@.take(i));
            assert(literal@.take(i + 1).last() == literal@[i]);
        }
//@@ ENDAFTER
//@@ BEFORE 1 <<<// Underscores are not allowed at the end.>>>
    proof {
        assert(literal@.take(literal@.len() as int) =~= literal@);
    }
//@@ ENDBEFORE
//@@ END

/// Vacuity guard: the same function cannot also be proved to reject everything.
proof fn canary_strip()
    ensures forall|s: Seq<u8>| !legal(s),
{
}

} // verus!
fn main() {}
