// Verus unit: literal/src/escape.rs, the bytes-repr layout computation (C16): for byte strings of
// ANY length the announced length is the sum of the per-byte escaped lengths plus one backslash per
// occurrence of the chosen quote, and the fast path (layout.len == source length) is only taken
// when every byte is printable ASCII other than backslash and the chosen quote - which is what
// makes the `unsafe { from_utf8_unchecked }` in AsciiEscape::write_source sound.
use vstd::prelude::*;
verus! {

//@@ EXTRACT file=literal/src/escape.rs anchor=<<<pub enum Quote {>>>
//@@ KEEPSIG
//@@ END
impl Copy for Quote {}
impl Clone for Quote {
    fn clone(&self) -> (r: Self) ensures r == *self { *self }
}

impl Quote {
//@@ EXTRACT file=literal/src/escape.rs anchor=<<<pub const fn swap(self) -> Quote {>>>
//@@ SIG
    const fn swap(self) -> (r: Quote)
        ensures r == (if self is Single { Quote::Double } else { Quote::Single }),
//@@ ENDSIG
//@@ END
}

//@@ EXTRACT file=literal/src/escape.rs anchor=<<<pub struct EscapeLayout {>>>
//@@ KEEPSIG
//@@ END

/// Python's quote choice for bytes/str repr with a preferred quote.
spec fn py_quote(single: int, double: int, preferred: Quote) -> Quote {
    match preferred {
        Quote::Single => if single > 0 && double == 0 { Quote::Double } else { Quote::Single },
        Quote::Double => if double > 0 && single == 0 { Quote::Single } else { Quote::Double },
    }
}

//@@ EXTRACT file=literal/src/escape.rs anchor=<<<pub(crate) const fn choose_quote(>>>
//@@ SIG
const fn choose_quote(
    single_count: usize,
    double_count: usize,
    preferred_quote: Quote,
) -> (r: (Quote, usize))
    ensures
        r.0 == py_quote(single_count as int, double_count as int, preferred_quote),
        r.1 == (if r.0 is Single { single_count } else { double_count }),
//@@ ENDSIG
//@@ END

/// Escaped length of one byte that is not a quote (from the bytes repr rules: \\ \t \r \n take two
/// characters, printable ASCII one, everything else \xHH).
spec fn esc_len(b: u8) -> int {
    if b == 92u8 || b == 9u8 || b == 13u8 || b == 10u8 { 2 } else if 0x20u8 <= b <= 0x7eu8 { 1 } else { 4 }
}
spec fn incr_of(b: u8) -> int {
    if b == 39u8 || b == 34u8 { 1 } else { esc_len(b) }
}
spec fn count_byte(s: Seq<u8>, c: u8) -> int
    decreases s.len()
{
    if s.len() == 0 { 0 } else { count_byte(s.drop_last(), c) + (if s.last() == c { 1int } else { 0int }) }
}
spec fn sum_incr(s: Seq<u8>) -> int
    decreases s.len()
{
    if s.len() == 0 { 0 } else { sum_incr(s.drop_last()) + incr_of(s.last()) }
}
/// A byte that the fast path may copy verbatim.
spec fn plain(b: u8, quote: Quote) -> bool {
    0x20u8 <= b <= 0x7eu8 && b != 92u8 && b != (if quote is Single { 39u8 } else { 34u8 })
}

proof fn lemma_counts_bounded(s: Seq<u8>, c: u8)
    ensures 0 <= count_byte(s, c) <= s.len(),
    decreases s.len()
{
    if s.len() > 0 { lemma_counts_bounded(s.drop_last(), c); }
}

/// sum_incr >= len, with equality only if every byte has increment 1.
proof fn lemma_sum_ge_len(s: Seq<u8>)
    ensures
        sum_incr(s) >= s.len(),
        sum_incr(s) == s.len() ==> forall|i: int| 0 <= i < s.len() ==> incr_of(#[trigger] s[i]) == 1,
    decreases s.len()
{
    if s.len() > 0 {
        let t = s.drop_last();
        lemma_sum_ge_len(t);
        if sum_incr(s) == s.len() {
            assert forall|i: int| 0 <= i < s.len() implies incr_of(#[trigger] s[i]) == 1 by {
                if i < t.len() { assert(t[i] == s[i]); }
            }
        }
    }
}

proof fn lemma_count_zero(s: Seq<u8>, c: u8)
    requires count_byte(s, c) == 0,
    ensures forall|i: int| 0 <= i < s.len() ==> #[trigger] s[i] != c,
    decreases s.len()
{
    if s.len() > 0 {
        let t = s.drop_last();
        lemma_counts_bounded(t, c);
        lemma_count_zero(t, c);
        assert forall|i: int| 0 <= i < s.len() implies #[trigger] s[i] != c by {
            if i < t.len() { assert(t[i] == s[i]); }
        }
    }
}

/// The checked addition every caller passes (`(a as isize).checked_add(b as isize)? as usize`).
spec fn add_ok(a: usize, b: usize) -> bool { a as int + b as int <= isize::MAX as int }

struct AsciiEscape {}

impl AsciiEscape {
//@@ EXTRACT file=literal/src/escape.rs anchor=<<<fn escaped_char_len(ch: u8) -> usize {>>>
//@@ SIG
    fn escaped_char_len(ch: u8) -> (r: usize)
        ensures r == esc_len(ch),
//@@ ENDSIG
//@@ END

//@@ EXTRACT file=literal/src/escape.rs anchor=<<<fn output_layout_with_checker(>>> nth=2
//@@ SIG
    fn output_layout_with_checker(
        source: &[u8],
        preferred_quote: Quote,
        reserved_len: usize,
        length_add: impl Fn(usize, usize) -> Option<usize>,
    ) -> (r: EscapeLayout)
        requires
            source@.len() <= usize::MAX, // true of every slice; stated for the counters' overflow obligations
            // contract of the closure every caller passes: isize-checked addition
            forall|a: usize, b: usize| length_add.requires((a, b)),
            forall|a: usize, b: usize, o: Option<usize>| length_add.ensures((a, b), o) ==>
                (match o { Some(v) => add_ok(a, b) && v == a + b, None => !add_ok(a, b) }),
        ensures
            match r.len {
                // announced length = sum of the per-byte lengths + one backslash per chosen quote,
                // with Python's quote choice
                Some(l) => r.quote == py_quote(count_byte(source@, 39u8), count_byte(source@, 34u8), preferred_quote)
                    && l as int == sum_incr(source@) + count_byte(source@, (if r.quote is Single { 39u8 } else { 34u8 })),
                // no length is announced only when the isize-checked additions overflow (the quote is
                // then chosen from the part scanned so far and unused: repr fails)
                None => reserved_len + sum_incr(source@) + source@.len() > isize::MAX,
            },
//@@ ENDSIG
//@@ SUB 1 <<<for ch in source.iter() {>>> ==> <<<for ch in it: source>>>
//@@ SUB 1 <<<) -> EscapeLayout {>>> ==> <<<) -> (r: EscapeLayout) ensures r.len is None {>>>
//@@ AFTER 1 <<<for ch in it: source>>>
            invariant
                source@.len() <= usize::MAX,
                forall|a: usize, b: usize| length_add.requires((a, b)),
                forall|a: usize, b: usize, o: Option<usize>| length_add.ensures((a, b), o) ==>
                    (match o { Some(v) => add_ok(a, b) && v == a + b, None => !add_ok(a, b) }),
                single_count as int == count_byte(source@.take(it.index@ as int), 39u8),
                double_count as int == count_byte(source@.take(it.index@ as int), 34u8),
                out_len as int == reserved_len + sum_incr(source@.take(it.index@ as int)),
        {
            proof {
                let i = it.index@ as int;
                assert(source@.take(i + 1).drop_last() =~= source@.take(i));
                assert(source@.take(i + 1).last() == source@[i]);
                lemma_counts_bounded(source@.take(i), 39u8);
                lemma_counts_bounded(source@.take(i), 34u8);
                lemma_sum_monotone(source@, i + 1);
                lemma_sum_ge_len(source@.take(i));
                assert(single_count <= i && double_count <= i);
                assert(i < source@.len());
            }
//@@ ENDAFTER
//@@ BEFORE 1 <<<let (quote, num_escaped_quotes) = choose_quote(single_count, double_count, preferred_quote);>>>
        proof {
            assert(source@.take(source@.len() as int) =~= source@);
            lemma_counts_bounded(source@, 39u8);
            lemma_counts_bounded(source@, 34u8);
            lemma_sum_ge_len(source@);
        }
//@@ ENDBEFORE
//@@ END
}

/// Prefix sums only grow (every increment is >= 1).
proof fn lemma_sum_monotone(s: Seq<u8>, k: int)
    requires 0 <= k <= s.len(),
    ensures sum_incr(s.take(k)) <= sum_incr(s), sum_incr(s.take(k)) >= 0,
    decreases s.len() - k
{
    lemma_sum_ge_len(s.take(k));
    if k < s.len() {
        lemma_sum_monotone(s, k + 1);
        assert(s.take(k + 1).drop_last() =~= s.take(k));
    } else {
        assert(s.take(k) =~= s);
    }
}

/// C16, fast path: if the announced length equals the source length (that is what
/// `Escape::changed()` tests), every byte is printable ASCII, not a backslash and not the chosen
/// quote - so the slow path would copy the source verbatim, and the bytes are valid UTF-8 (all
/// < 0x80), which is the safety condition of `from_utf8_unchecked` in `write_source`.
proof fn theorem_fast_path_sound(src: Seq<u8>, quote: Quote)
    requires
        src.len() == sum_incr(src) + count_byte(src, (if quote is Single { 39u8 } else { 34u8 })),
    ensures
        forall|i: int| 0 <= i < src.len() ==> plain(#[trigger] src[i], quote),
{
    let q = if quote is Single { 39u8 } else { 34u8 };
    lemma_sum_ge_len(src);
    lemma_counts_bounded(src, q);
    lemma_count_zero(src, q);
    assert forall|i: int| 0 <= i < src.len() implies plain(#[trigger] src[i], quote) by {
        assert(incr_of(src[i]) == 1);
        assert(src[i] != q);
    }
}

proof fn canary_ascii_layout(src: Seq<u8>)
    ensures sum_incr(src) == src.len(),
{
}

} // verus!
fn main() {}
