// Verus unit: literal/src/float.rs maybe_remove_trailing_redundant_chars / remove_trailing_zeros /
// remove_trailing_decimal_point (C17: "%g" formatting removes trailing zeros of the fraction and then a
// trailing decimal point, unless the alternate form is requested).
// String is retyped to its UTF-8 bytes, Vec<u8> (rule R20): '0' and '.' are ASCII, an ASCII byte is never
// part of a multi-byte character, so `ends_with(c)` is a test of the last byte and `pop()` removes that byte.
use vstd::prelude::*;
verus! {

/// s without its trailing '0' characters.
spec fn rtz(s: Seq<u8>) -> Seq<u8>
    decreases s.len()
{
    if s.len() > 0 && s.last() == 48u8 { rtz(s.drop_last()) } else { s }
}

/// s without ONE trailing '.'.
spec fn rdp(s: Seq<u8>) -> Seq<u8> {
    if s.len() > 0 && s.last() == 46u8 { s.drop_last() } else { s }
}

spec fn has_point(s: Seq<u8>) -> bool { exists|i: int| 0 <= i < s.len() && #[trigger] s[i] == 46u8 }

/// `s.contains('.')` (trusted: substring search for a one-byte pattern).
#[verifier::external_body]
fn bytes_contains(s: &Vec<u8>, c: u8) -> (r: bool)
    ensures r == (exists|i: int| 0 <= i < s@.len() && #[trigger] s@[i] == c),
{ s.contains(&c) }

//@@ EXTRACT file=literal/src/float.rs anchor=<<<fn remove_trailing_zeros(s: String) -> String {>>>
//@@ SIGSUB <<<s: String>>> ==> <<<s: Vec<u8>>>>
//@@ SIGSUB <<<-> String>>> ==> <<<-> Vec<u8>>>>
//@@ SIG
fn remove_trailing_zeros(s: Vec<u8>) -> (r: Vec<u8>)
    ensures r@ == rtz(s@),
//@@ ENDSIG
//@@ SUB 1 <<<while s.ends_with('0') {>>> ==> <<<while s.len() > 0 && s[s.len() - 1] == b'0'>>>
//@@ AFTER 1 <<<while s.len() > 0 && s[s.len() - 1] == b'0'>>>
        invariant rtz(s@) == rtz(old_s),
        decreases s@.len(),
    {
//@@ ENDAFTER
//@@ AFTER 1 <<<let mut s = s;>>>
    let ghost old_s = s@;
//@@ ENDAFTER
//@@ END

//@@ EXTRACT file=literal/src/float.rs anchor=<<<fn remove_trailing_decimal_point(s: String) -> String {>>>
//@@ SIGSUB <<<s: String>>> ==> <<<s: Vec<u8>>>>
//@@ SIGSUB <<<-> String>>> ==> <<<-> Vec<u8>>>>
//@@ SIG
fn remove_trailing_decimal_point(s: Vec<u8>) -> (r: Vec<u8>)
    ensures r@ == rdp(s@),
//@@ ENDSIG
//@@ SUB 1 <<<if s.ends_with('.') {>>> ==> <<<if s.len() > 0 && s[s.len() - 1] == b'.' {>>>
//@@ END

//@@ EXTRACT file=literal/src/float.rs anchor=<<<fn maybe_remove_trailing_redundant_chars(s: String, alternate_form: bool) -> String {>>>
//@@ SIGSUB <<<s: String>>> ==> <<<s: Vec<u8>>>>
//@@ SIGSUB <<<-> String>>> ==> <<<-> Vec<u8>>>>
//@@ SIG
fn maybe_remove_trailing_redundant_chars(s: Vec<u8>, alternate_form: bool) -> (r: Vec<u8>)
    ensures
        // C printf's %g as Python produces it: without '#', a number that has a decimal point loses the
        // trailing zeros of its fraction and then a decimal point left at the end; with '#', or without a
        // decimal point, nothing is removed
        r@ == (if !alternate_form && has_point(s@) { rdp(rtz(s@)) } else { s@ }),
//@@ ENDSIG
//@@ SUBRE 1 <<<s\.contains\('\.'\)>>> ==> <<<bytes_contains(&s, b'.')>>>
//@@ END

/// What the removal means for a decimal rendering: nothing but '0's and at most one '.' is removed, the
/// result does not end in '0' (when a point remains) nor in '.'.
proof fn lemma_rtz_shape(s: Seq<u8>)
    ensures
        rtz(s).len() <= s.len(),
        rtz(s) == s.take(rtz(s).len() as int),
        forall|k: int| rtz(s).len() <= k < s.len() ==> s[k] == 48u8,
        rtz(s).len() > 0 ==> rtz(s).last() != 48u8,
    decreases s.len()
{
    if s.len() > 0 && s.last() == 48u8 {
        let t = s.drop_last();
        lemma_rtz_shape(t);
        assert(rtz(s) == rtz(t));
        assert(t.take(rtz(t).len() as int) =~= s.take(rtz(s).len() as int));
        assert forall|k: int| rtz(s).len() <= k < s.len() implies s[k] == 48u8 by {
            if k < t.len() { assert(t[k] == s[k]); }
        }
    } else {
        assert(s.take(s.len() as int) =~= s);
    }
}

/// Vacuity guard: must be rejected.
proof fn canary_trailing(s: Seq<u8>)
    ensures rtz(s).len() == s.len(),
{
}

} // verus!
fn main() {}
