// Verus unit: vendored/src/source_location/line_index.rs (C15 line index, C13 row/column).
// Items between "---- extracted" markers are copied from /repo on every run and rewritten only by
// the SUB rules listed in the EXTRACT blocks of the template (rules R1-R12 of DESIGN 2.2).
use vstd::prelude::*;
verus! {

// ---------------------------------------------------------------------------------------------
// Mathematical specification (from the property statement): CR, LF and CRLF each count once.

/// `e` is the offset just after a line break of `b`.
spec fn is_break_end(b: Seq<u8>, e: int) -> bool {
    0 < e <= b.len() && (b[e - 1] == 10u8 || (b[e - 1] == 13u8 && !(e < b.len() && b[e] == 10u8)))
}

spec fn starts_sorted(s: Seq<TextSize>) -> bool {
    forall|i: int, j: int| 0 <= i < j < s.len() ==> s[i].raw < s[j].raw
}

/// Representation invariant of a line index for the text `b`: entry 0 is offset 0, the entries are
/// strictly increasing, and entries 1.. are exactly the line-break ends of `b`.
spec fn index_wf(s: Seq<TextSize>, b: Seq<u8>) -> bool {
    &&& s.len() >= 1
    &&& s[0].raw == 0
    &&& starts_sorted(s)
    &&& forall|k: int| 1 <= k < s.len() ==> is_break_end(b, #[trigger] s[k].raw as int)
    &&& forall|e: int| is_break_end(b, e) ==> exists|k: int| 1 <= k < s.len() && #[trigger] s[k].raw == e
}

/// The row containing `o`: the unique r with starts[r] <= o < starts[r+1] (last row open-ended).
spec fn is_row_of(s: Seq<TextSize>, o: int, r: int) -> bool {
    0 <= r < s.len() && s[r].raw <= o && (r + 1 < s.len() ==> o < s[r + 1].raw)
}

spec fn all_ascii(b: Seq<u8>) -> bool {
    forall|i: int| 0 <= i < b.len() ==> #[trigger] b[i] < 128u8
}

// ---------------------------------------------------------------------------------------------
// Types (copied from /repo).

//@@ EXTRACT file=vendored/src/text_size/size.rs anchor=<<<pub struct TextSize {>>>
//@@ KEEPSIG
//@@ END

impl Copy for TextSize {}
impl Clone for TextSize {
    fn clone(&self) -> (r: Self) ensures r == *self { *self }
}

impl TextSize {
//@@ EXTRACT file=vendored/src/text_size/size.rs anchor=<<<pub const fn new(offset: u32) -> Self {>>>
//@@ SIG
    const fn new(offset: u32) -> (r: Self)
        ensures r.raw == offset,
//@@ ENDSIG
//@@ END
}

//@@ EXTRACT file=vendored/src/text_size/range.rs anchor=<<<pub struct TextRange {>>>
//@@ KEEPSIG
//@@ END
impl Copy for TextRange {}
impl Clone for TextRange {
    fn clone(&self) -> (r: Self) ensures r == *self { *self }
}

impl TextRange {
//@@ EXTRACT file=vendored/src/text_size/range.rs anchor=<<<pub const fn new(start: TextSize, end: TextSize) -> TextRange {>>>
//@@ SIG
    const fn new(start: TextSize, end: TextSize) -> (r: TextRange)
        requires start.raw <= end.raw, // R8: the run-time assert! is the precondition
        ensures r.start == start, r.end == end,
//@@ ENDSIG
//@@ SUB 1 <<<assert!(start.raw <= end.raw);>>> ==> <<<assert(start.raw <= end.raw);>>>
//@@ END

//@@ EXTRACT file=vendored/src/text_size/range.rs anchor=<<<pub fn empty(offset: TextSize) -> TextRange {>>>
//@@ SIG
    fn empty(offset: TextSize) -> (r: TextRange)
        ensures r.start == offset, r.end == offset,
//@@ ENDSIG
//@@ END
}

/// Model of OneIndexed (a NonZeroU32 wrapper; NonZeroU32 is outside the Verus subset).  The
/// contracts assumed here are the ones PROVED by Kani for all u32 on the real type
/// (obligations C15.k.one_indexed_*).
struct OneIndexed {
    v: u32,
}
impl Copy for OneIndexed {}
impl Clone for OneIndexed {
    fn clone(&self) -> (r: Self) ensures r == *self { *self }
}
impl OneIndexed {
    #[verifier::external_body]
    const fn from_zero_indexed(value: u32) -> (r: Self)
        ensures r.v >= 1, r.v as int == (if value == u32::MAX { u32::MAX as int } else { value + 1 }),
    { unimplemented!() }

    #[verifier::external_body]
    const fn to_zero_indexed_usize(self) -> (r: usize)
        requires self.v >= 1,
        ensures r == self.v - 1,
    { unimplemented!() }

    #[verifier::external_body]
    const fn saturating_add(self, rhs: u32) -> (r: Self)
        requires self.v >= 1,
        ensures r.v >= 1, r.v as int == (if self.v + rhs > u32::MAX { u32::MAX as int } else { self.v + rhs }),
    { unimplemented!() }
}

struct SourceLocation {
    row: OneIndexed,
    column: OneIndexed,
}

//@@ EXTRACT file=vendored/src/source_location/line_index.rs anchor=<<<enum IndexKind {>>>
//@@ KEEPSIG
//@@ END

impl Copy for IndexKind {}
impl Clone for IndexKind {
    fn clone(&self) -> (r: Self) ensures r == *self { *self }
}

impl IndexKind {
//@@ EXTRACT file=vendored/src/source_location/line_index.rs anchor=<<<const fn is_ascii(self) -> bool {>>>
//@@ SIG
    const fn is_ascii(self) -> (r: bool)
        ensures r == (self is Ascii),
//@@ ENDSIG
//@@ END
}

//@@ EXTRACT file=vendored/src/source_location/line_index.rs anchor=<<<struct LineIndexInner {>>>
//@@ KEEPSIG
//@@ END

//@@ EXTRACT file=vendored/src/source_location/line_index.rs anchor=<<<pub struct LineIndex {>>>
//@@ KEEPSIG
//@@ SUB 1 <<<inner: Arc<LineIndexInner>,>>> ==> <<<inner: LineIndexInner,>>>
//@@ END

/// Assumed contract of `<[T]>::binary_search` from core, for a strictly increasing slice of
/// TextSize ordered by `raw` (the derived Ord on a single-field struct).
#[verifier::external_body]
fn slice_binary_search(s: &[TextSize], x: &TextSize) -> (r: Result<usize, usize>)
    requires starts_sorted(s@),
    ensures
        match r {
            Ok(i) => 0 <= i < s@.len() && s@[i as int].raw == x.raw,
            Err(i) => 0 <= i <= s@.len()
                && (forall|k: int| 0 <= k < i ==> s@[k].raw < x.raw)
                && (forall|k: int| i <= k < s@.len() ==> s@[k].raw > x.raw),
        },
{ unimplemented!() }

/// From the property statement: "not counting a leading BOM" - U+FEFF is EF BB BF in UTF-8.
spec fn has_bom(b: Seq<u8>) -> bool {
    b.len() >= 3 && b[0] == 0xEFu8 && b[1] == 0xBBu8 && b[2] == 0xBFu8
}

/// The number of characters of a piece of text, as core's `str::chars().count()` computes it from the
/// bytes: left UNINTERPRETED (character decoding is outside the Verus subset), so that the only thing
/// used about it is that it is a function of the bytes - plus the two facts assumed of the exec
/// function below.  The Kani twins run the real counting on all short valid UTF-8 texts.
uninterp spec fn chars_count(s: Seq<u8>) -> int;

/// `s.chars().count()` of a `str` slice (trusted: at most one character per byte; exactly one per byte
/// when every byte is ASCII).
#[verifier::external_body]
fn str_chars_count(s: &[u8]) -> (r: usize)
    ensures r as int == chars_count(s@), 0 <= chars_count(s@) <= s@.len(),
        (forall|k: int| 0 <= k < s@.len() ==> (#[trigger] s@[k]) < 128u8) ==> chars_count(s@) == s@.len(),
{ unimplemented!() }

/// The same two facts as an axiom about the spec function (trusted, see str_chars_count).
#[verifier::external_body]
proof fn axiom_chars_count(s: Seq<u8>)
    ensures 0 <= chars_count(s) <= s.len(),
        (forall|k: int| 0 <= k < s.len() ==> (#[trigger] s[k]) < 128u8) ==> chars_count(s) == s.len(),
{
}

impl LineIndex {

spec fn view(&self) -> Seq<TextSize> { self.inner.line_starts@ }

//@@ EXTRACT file=vendored/src/source_location/line_index.rs anchor=<<<pub fn from_source_text(text: &str) -> Self {>>>
//@@ SIGSUB <<<text: &str>>> ==> <<<text: &[u8]>>>
//@@ SIG
    fn from_source_text(text: &[u8]) -> (r: Self)
        requires text@.len() <= u32::MAX,
        ensures
            index_wf(r@, text@),
            (r.inner.kind is Ascii) <==> all_ascii(text@),
//@@ ENDSIG
//@@ SUB 1 <<<line_starts.push(TextSize::default());>>> ==> <<<line_starts.push(TextSize::new(0));>>>
//@@ SUB 1 <<<let bytes = text.as_bytes();>>> ==> <<<let bytes = text;>>>
//@@ SUB 1 <<<assert!(u32::try_from(bytes.len()).is_ok());>>> ==> <<<assert(bytes@.len() <= u32::MAX); // R8: the run-time assert is the precondition>>>
//@@ SUB 1 <<<for (i, byte) in bytes.iter().enumerate() {>>> ==> <<<for i in 0..bytes.len()>>>
//@@ SUB 1 <<<utf8 |= !byte.is_ascii();>>> ==> <<<if !(*byte < 128) { utf8 = true; }>>>
//@@ SUB 1 <<<b'\r' if bytes.get(i + 1) == Some(&b'\n') => continue,>>> ==> <<<b'\r' if i + 1 < bytes.len() && bytes[i + 1] == b'\n' => {}>>>
//@@ SUB 1 <<<line_starts.push(TextSize::from(i as u32) + TextSize::from(1));>>> ==> <<<line_starts.push(TextSize::new(i as u32 + 1));>>>
//@@ SUB 1 <<<inner: Arc::new(LineIndexInner { line_starts, kind }),>>> ==> <<<inner: LineIndexInner { line_starts, kind },>>>
//@@ AFTER 1 <<<for i in 0..bytes.len()>>>
            invariant
                bytes@ == text@,
                bytes@.len() <= u32::MAX,
                line_starts@.len() >= 1,
                line_starts@[0].raw == 0,
                starts_sorted(line_starts@),
                forall|k: int| 0 <= k < line_starts@.len() ==> (#[trigger] line_starts@[k]).raw <= i,
                forall|k: int| 1 <= k < line_starts@.len() ==> is_break_end(bytes@, #[trigger] line_starts@[k].raw as int),
                forall|e: int| e <= i && is_break_end(bytes@, e) ==> exists|k: int| 1 <= k < line_starts@.len() && #[trigger] line_starts@[k].raw == e,
                utf8 <==> !all_ascii(bytes@.take(i as int)),
        {
            let byte = &bytes[i];
            proof {
                assert(bytes@.take(i + 1).drop_last() =~= bytes@.take(i as int));
                assert(bytes@.take(i + 1).last() == bytes@[i as int]);
                lemma_all_ascii_push(bytes@.take(i + 1));
            }
            let ghost old_ls = line_starts@;
//@@ ENDAFTER
//@@ AFTER 1 <<<line_starts.push(TextSize::new(i as u32 + 1));>>>
                    proof {
                        assert(forall|e: int| e <= i && is_break_end(bytes@, e) ==> exists|k: int| 1 <= k < old_ls.len() && #[trigger] old_ls[k].raw == e && line_starts@[k] == old_ls[k]);
                        assert(line_starts@[old_ls.len() as int].raw == i + 1);
                    }
//@@ ENDAFTER
//@@ BEFORE 1 <<<let kind = if utf8 {>>>
        proof {
            assert(bytes@.take(bytes@.len() as int) =~= bytes@);
        }
//@@ ENDBEFORE
//@@ END

//@@ EXTRACT file=vendored/src/source_location/line_index.rs anchor=<<<fn kind(&self) -> IndexKind {>>>
//@@ SIG
    fn kind(&self) -> (r: IndexKind)
        ensures r == self.inner.kind,
//@@ ENDSIG
//@@ END

//@@ EXTRACT file=vendored/src/source_location/line_index.rs anchor=<<<pub fn line_starts(&self) -> &[TextSize] {>>>
//@@ SIG
    fn line_starts(&self) -> (r: &[TextSize])
        ensures r@ == self@,
//@@ ENDSIG
//@@ SUB 1 <<<&self.inner.line_starts>>> ==> <<<self.inner.line_starts.as_slice()>>>
//@@ END

//@@ EXTRACT file=vendored/src/source_location/line_index.rs anchor=<<<pub(crate) fn line_count(&self) -> usize {>>>
//@@ SIG
    fn line_count(&self) -> (r: usize)
        ensures r == self@.len(),
//@@ ENDSIG
//@@ END

//@@ EXTRACT file=vendored/src/source_location/line_index.rs anchor=<<<fn binary_search_line(&self, offset: &TextSize) -> Result<u32, u32> {>>>
//@@ SIG
    fn binary_search_line(&self, offset: &TextSize) -> (r: Result<u32, u32>)
        requires
            self@.len() >= 1, self@[0].raw == 0, starts_sorted(self@),
            self@.len() <= u32::MAX,
        ensures
            match r {
                // the offset is the start of row i
                Ok(i) => is_row_of(self@, offset.raw as int, i as int) && self@[i as int].raw == offset.raw,
                // the offset lies strictly inside row i - 1, and i >= 1 because entry 0 is offset 0
                Err(i) => i >= 1 && is_row_of(self@, offset.raw as int, i - 1) && self@[i - 1].raw < offset.raw,
            },
//@@ ENDSIG
//@@ SUB 1 <<<match self.line_starts().binary_search(offset) {>>> ==> <<<match slice_binary_search(self.line_starts(), offset) {>>>
//@@ SUB 1 <<<Ok(index) => Ok(index.try_into().unwrap()),>>> ==> <<<Ok(index) => Ok(index as u32),>>>
//@@ SUB 1 <<<Err(index) => Err(index.try_into().unwrap()),>>> ==> <<<Err(index) => Err(index as u32),>>>
//@@ END

//@@ EXTRACT file=vendored/src/source_location/line_index.rs anchor=<<<pub fn line_index(&self, offset: TextSize) -> OneIndexed {>>>
//@@ SIG
    fn line_index(&self, offset: TextSize) -> (r: OneIndexed)
        requires
            self@.len() >= 1, self@[0].raw == 0, starts_sorted(self@),
            self@.len() < u32::MAX,
        ensures
            // 1-based number of the row containing the offset: 1 + number of line starts <= offset - 1
            r.v >= 1 && is_row_of(self@, offset.raw as int, r.v - 1),
//@@ ENDSIG
//@@ END

//@@ EXTRACT file=vendored/src/source_location/line_index.rs anchor=<<<pub fn source_location(&self, offset: TextSize, content: &str) -> SourceLocation {>>>
//@@ SIGSUB <<<content: &str>>> ==> <<<content: &[u8]>>>
//@@ SIG
    fn source_location(&self, offset: TextSize, content: &[u8]) -> (r: SourceLocation)
        requires
            index_wf(self@, content@),
            self@.len() < u32::MAX,
            offset.raw <= content@.len(),
            offset.raw < u32::MAX, // the 1-based column must fit u32 (OneIndexed saturates at u32::MAX)
            !(has_bom(content@) && 0 < offset.raw < 3), // the offset is on a character boundary (not inside the BOM)
        ensures
            r.row.v >= 1 && is_row_of(self@, offset.raw as int, r.row.v - 1),
            // ASCII text: 1-based column = offset - line start + 1
            (self.inner.kind is Ascii) ==> r.column.v as int == offset.raw - self@[r.row.v - 1].raw + 1,
            // any other text: 1 + the number of characters between the line start - after a leading BOM on
            // the first line - and the offset
            !(self.inner.kind is Ascii) ==> ({
                let ls = self@[r.row.v - 1].raw as int;
                let from = if ls == 0 && has_bom(content@) && offset.raw > 0 { 3int } else { ls };
                r.column.v as int == 1 + chars_count(content@.subrange(from, offset.raw as int))
            }),
//@@ ENDSIG
//@@ SUB 1 <<<u32::from(offset - line_start)>>> ==> <<<(offset.raw - line_start.raw)>>>
//@@ SUBRE 1 <<<content\.starts_with\('\\u\{feff\}'\)>>> ==> <<<(content.len() >= 3 && content[0] == 0xEF && content[1] == 0xBB && content[2] == 0xBF)>>>
//@@ SUBRE 0-1 <<<line_start == TextSize::from\(0\)>>> ==> <<<line_start.raw == 0>>>
//@@ SUB 1 <<<line_start = '\u{feff}'.text_len();>>> ==> <<<line_start = TextSize::new(3);>>>
//@@ BEFORE 1 <<<match self.binary_search_line(&offset) {>>>
        proof {
            // an offset that IS a line start has no character before it on its line
            axiom_chars_count(content@.subrange(offset.raw as int, offset.raw as int));
        }
//@@ ENDBEFORE
//@@ SUB 1 <<<content[range].chars().count().try_into().unwrap()>>> ==> <<<str_chars_count(&content[range.start.raw as usize..range.end.raw as usize]) as u32>>>
//@@ END

//@@ EXTRACT file=vendored/src/source_location/line_index.rs anchor=<<<pub(crate) fn line_start(&self, line: OneIndexed, contents: &str) -> TextSize {>>>
//@@ SIGSUB <<<contents: &str>>> ==> <<<contents: &[u8]>>>
//@@ SIG
    fn line_start(&self, line: OneIndexed, contents: &[u8]) -> (r: TextSize)
        requires
            line.v >= 1, line.v - 1 <= self@.len(), contents@.len() <= u32::MAX,
        ensures
            r.raw as int == line_start_spec(self@, contents@, line.v - 1),
//@@ ENDSIG
//@@ SUB 1 <<<contents.text_len()>>> ==> <<<TextSize::new(contents.len() as u32)>>>
//@@ END

//@@ EXTRACT file=vendored/src/source_location/line_index.rs anchor=<<<pub(crate) fn line_end(&self, line: OneIndexed, contents: &str) -> TextSize {>>>
//@@ SIGSUB <<<contents: &str>>> ==> <<<contents: &[u8]>>>
//@@ SIG
    fn line_end(&self, line: OneIndexed, contents: &[u8]) -> (r: TextSize)
        requires
            line.v >= 1, contents@.len() <= u32::MAX,
        ensures
            r.raw as int == line_start_spec(self@, contents@, line.v as int),
//@@ ENDSIG
//@@ SUB 1 <<<contents.text_len()>>> ==> <<<TextSize::new(contents.len() as u32)>>>
//@@ END

//@@ EXTRACT file=vendored/src/source_location/line_index.rs anchor=<<<pub(crate) fn line_range(&self, line: OneIndexed, contents: &str) -> TextRange {>>>
//@@ SIGSUB <<<contents: &str>>> ==> <<<contents: &[u8]>>>
//@@ SIG
    fn line_range(&self, line: OneIndexed, contents: &[u8]) -> (r: TextRange)
        requires
            index_wf(self@, contents@),
            line.v >= 1, line.v - 1 <= self@.len(),
            contents@.len() <= u32::MAX, self@.len() < u32::MAX - 1,
        ensures
            // [start of the line, start of the next line): the line with its terminator; empty at the
            // end of the text for the position after the last line
            r.start.raw as int == line_start_spec(self@, contents@, line.v - 1),
            r.end.raw as int == line_start_spec(self@, contents@, line.v as int),
            r.start.raw <= r.end.raw,
//@@ ENDSIG
//@@ SUB 1 <<<TextRange::empty(contents.text_len())>>> ==> <<<TextRange::empty(TextSize::new(contents.len() as u32))>>>
//@@ BEFORE 1 <<<TextRange::new(>>>
            proof {
                theorem_lines_partition(self@, contents@);
            }
//@@ ENDBEFORE
//@@ END

} // impl LineIndex

/// Start of 0-based row `row`; rows at or past the end start at the end of the text.
spec fn line_start_spec(s: Seq<TextSize>, b: Seq<u8>, row: int) -> int {
    if 0 <= row < s.len() { s[row].raw as int } else { b.len() as int }
}

proof fn lemma_all_ascii_push(s: Seq<u8>)
    requires s.len() > 0,
    ensures all_ascii(s) <==> (all_ascii(s.drop_last()) && s.last() < 128u8),
{
    if all_ascii(s.drop_last()) && s.last() < 128u8 {
        assert forall|i: int| 0 <= i < s.len() implies #[trigger] s[i] < 128u8 by {
            if i < s.len() - 1 {
                assert(s.drop_last()[i] == s[i]);
            }
        }
    }
    if all_ascii(s) {
        assert forall|i: int| 0 <= i < s.drop_last().len() implies #[trigger] s.drop_last()[i] < 128u8 by {
            assert(s.drop_last()[i] == s[i]);
        }
        assert(s[s.len() - 1] < 128u8);
    }
}

// ---------------------------------------------------------------------------------------------
// The property, as lemmas over the representation invariant.

/// Number of lines = number of line breaks + 1, and the lines partition the text:
/// consecutive line ranges [start(r), start(r+1)) are non-empty-ordered, adjacent, start at 0 and
/// end at the text length.
proof fn theorem_lines_partition(s: Seq<TextSize>, b: Seq<u8>)
    requires index_wf(s, b),
    ensures
        line_start_spec(s, b, 0) == 0,
        line_start_spec(s, b, s.len() as int) == b.len(),
        forall|r: int| 0 <= r < s.len() ==> line_start_spec(s, b, r) <= #[trigger] line_start_spec(s, b, r + 1),
        // every offset of the text lies in exactly one row
        forall|o: int, r1: int, r2: int| is_row_of(s, o, r1) && is_row_of(s, o, r2) ==> r1 == r2,
{
    assert forall|r: int| 0 <= r < s.len() implies line_start_spec(s, b, r) <= #[trigger] line_start_spec(s, b, r + 1) by {
        if r + 1 < s.len() {
            assert(s[r].raw < s[r + 1].raw);
        } else {
            if r >= 1 {
                assert(is_break_end(b, s[r].raw as int));
            }
        }
    }
    assert forall|o: int, r1: int, r2: int| is_row_of(s, o, r1) && is_row_of(s, o, r2) implies r1 == r2 by {
        if r1 < r2 {
            assert(s[r1 + 1].raw <= s[r2].raw) by {
                if r1 + 1 < r2 { assert(s[r1 + 1].raw < s[r2].raw); }
            }
        }
        if r2 < r1 {
            assert(s[r2 + 1].raw <= s[r1].raw) by {
                if r2 + 1 < r1 { assert(s[r2 + 1].raw < s[r1].raw); }
            }
        }
    }
}

/// Vacuity guard: must be rejected.
proof fn canary_line_index(s: Seq<TextSize>, b: Seq<u8>)
    requires index_wf(s, b),
    ensures s.len() == 1,
{
}

} // verus!
fn main() {}
