// Verus unit: format/src/format.rs get_num_digits (C18: the width / precision of a format spec is the
// longest run of ASCII decimal digits at the front of the remaining text, whatever its length).
// &str is retyped to &[u8] (R7) and the char_indices loop to a byte loop (R21): up to and including the first
// character that is not an ASCII digit every character is one byte or starts with a byte that is not an
// ASCII digit, so character index = byte index and the test sees the same verdict.
use vstd::prelude::*;
verus! {

pub open spec fn is_digit(b: u8) -> bool { 48 <= b <= 57 }

pub assume_specification [u8::is_ascii_digit] (b: &u8) -> (r: bool)
    ensures r == is_digit(*b);

//@@ EXTRACT file=format/src/format.rs anchor=<<<fn get_num_digits(text: &str) -> usize {>>>
//@@ SIGSUB <<<text: &str>>> ==> <<<text: &[u8]>>>
//@@ SIG
fn get_num_digits(text: &[u8]) -> (r: usize)
    ensures
        r <= text@.len(),
        // the longest prefix of ASCII decimal digits
        forall|k: int| 0 <= k < r ==> is_digit(#[trigger] text@[k]),
        r < text@.len() ==> !is_digit(text@[r as int]),
//@@ ENDSIG
//@@ SUB 1 <<<for (index, character) in text.char_indices() {>>> ==> <<<for index in 0..text.len()>>>
//@@ AFTER 1 <<<for index in 0..text.len()>>>
        invariant forall|k: int| 0 <= k < index ==> is_digit(#[trigger] text@[k]),
    {
        let character = &text[index];
//@@ ENDAFTER
//@@ END

/// Vacuity guard: must be rejected.
proof fn canary_num_digits(s: Seq<u8>)
    ensures forall|k: int| 0 <= k < s.len() ==> is_digit(#[trigger] s[k]),
{
}

} // verus!
fn main() {}
