// Verus unit: core/src/source_code.rs LinearLocator::locate_inner (C13: the incremental locator keeps its
// per-line state consistent with the text and reports the byte column of the line containing the offset).
// &str is retyped to &[u8] (rule R7); find_newline is extracted and verified again here, so the
// unit does not assume its contract.
use vstd::prelude::*;
verus! {

spec fn is_nl(c: u8) -> bool { c == 10u8 || c == 13u8 }

spec fn no_nl(b: Seq<u8>, lo: int, hi: int) -> bool {
    forall|k: int| lo <= k < hi ==> !is_nl(#[trigger] b[k])
}

/// Length of the line ending that starts at p (b[p] is CR or LF): CR LF counts once.
spec fn ending_len(b: Seq<u8>, p: int) -> int {
    if b[p] == 13u8 && p + 1 < b.len() && b[p + 1] == 10u8 { 2 } else { 1 }
}

/// Length of the first line of b including its line ending (the whole of b if it has none).
spec fn fl(b: Seq<u8>) -> int
    decreases b.len()
{
    if b.len() == 0 {
        0
    } else if is_nl(b[0]) {
        ending_len(b, 0)
    } else {
        1 + fl(b.skip(1))
    }
}

/// The lines of b, each including its line ending: CR, LF and CRLF each end one line.
spec fn lines(b: Seq<u8>) -> Seq<Seq<u8>>
    decreases b.len()
{
    let f = fl(b);
    if b.len() == 0 || f <= 0 || f > b.len() {
        Seq::<Seq<u8>>::empty()
    } else {
        seq![b.take(f)] + lines(b.skip(f))
    }
}
proof fn lemma_fl_at(b: Seq<u8>, p: int)
    requires 0 <= p < b.len(), is_nl(b[p]), no_nl(b, 0, p),
    ensures fl(b) == p + ending_len(b, p),
    decreases p
{
    if p > 0 {
        assert(!is_nl(b[0]));
        let t = b.skip(1);
        assert(forall|k: int| 0 <= k < p - 1 ==> t[k] == b[k + 1]);
        assert(no_nl(t, 0, p - 1));
        lemma_fl_at(t, p - 1);
        assert(t[p - 1] == b[p]);
        assert(ending_len(t, p - 1) == ending_len(b, p)) by {
            if p + 1 < b.len() { assert(t[p] == b[p + 1]); }
        }
    }
}

proof fn lemma_fl_none(b: Seq<u8>)
    requires no_nl(b, 0, b.len() as int),
    ensures fl(b) == b.len(),
    decreases b.len()
{
    if b.len() > 0 {
        let t = b.skip(1);
        assert(forall|k: int| 0 <= k < t.len() ==> t[k] == b[k + 1]);
        lemma_fl_none(t);
    }
}

/// From the property statement: "not counting a leading BOM" - U+FEFF is EF BB BF in UTF-8.
spec fn has_bom(b: Seq<u8>) -> bool {
    b.len() >= 3 && b[0] == 0xEFu8 && b[1] == 0xBBu8 && b[2] == 0xBFu8
}

/// There is a line break somewhere in b.
spec fn has_nl(b: Seq<u8>) -> bool {
    exists|k: int| 0 <= k < b.len() && is_nl(#[trigger] b[k])
}

/// All bytes of b[lo..hi) are ASCII.
spec fn ascii_in(b: Seq<u8>, lo: int, hi: int) -> bool {
    forall|k: int| lo <= k < hi ==> (#[trigger] b[k]) < 128u8
}

/// Content length of the first line (without its ending).
spec fn first_content_len(b: Seq<u8>) -> int
    decreases b.len()
{
    if b.len() == 0 || is_nl(b[0]) { 0 } else { 1 + first_content_len(b.skip(1)) }
}

proof fn lemma_first_content(b: Seq<u8>, p: int)
    requires 0 <= p <= b.len(), no_nl(b, 0, p), p < b.len() ==> is_nl(b[p]),
    ensures first_content_len(b) == p,
    decreases p
{
    if p > 0 {
        assert(!is_nl(b[0]));
        let t = b.skip(1);
        assert(forall|k: int| 0 <= k < t.len() ==> t[k] == b[k + 1]);
        assert(no_nl(t, 0, p - 1));
        if p < b.len() { assert(t[p - 1] == b[p]); }
        lemma_first_content(t, p - 1);
    }
}

// ---------------------------------------------------------------------------------------------
// Assumed contracts (trusted): memchr2 of the memchr crate; <[u8]>::is_ascii of core.

#[verifier::external_body]
fn memchr2(n1: u8, n2: u8, haystack: &[u8]) -> (r: Option<usize>)
    ensures
        match r {
            Some(i) => i < haystack@.len() && (haystack@[i as int] == n1 || haystack@[i as int] == n2)
                && forall|k: int| 0 <= k < i ==> (#[trigger] haystack@[k]) != n1 && haystack@[k] != n2,
            None => forall|k: int| 0 <= k < haystack@.len() ==> (#[trigger] haystack@[k]) != n1 && haystack@[k] != n2,
        },
{ unimplemented!() }

#[verifier::external_body]
fn memrchr2(n1: u8, n2: u8, haystack: &[u8]) -> (r: Option<usize>)
    ensures
        match r {
            Some(i) => i < haystack@.len() && (haystack@[i as int] == n1 || haystack@[i as int] == n2)
                && forall|k: int| i < k < haystack@.len() ==> (#[trigger] haystack@[k]) != n1 && haystack@[k] != n2,
            None => forall|k: int| 0 <= k < haystack@.len() ==> (#[trigger] haystack@[k]) != n1 && haystack@[k] != n2,
        },
{ unimplemented!() }

/// UniversalNewlineIterator::from(text).count(): the number of lines of the slice - assumed: Iterator::count
/// is the number of next() calls that return Some, and next() is PROVED in the unit newlines to peel
/// exactly fl(text) bytes per call (C15.v.newline_next), which is the recursion of lines(); the
/// definitions of fl and lines are checked to be the same text as there.
#[verifier::external_body]
fn count_lines(text: &[u8]) -> (r: usize)
    ensures r == lines(text@).len(),
{ unimplemented!() }

/// The number of characters of a piece of text, as core's `str::chars().count()` computes it from the
/// bytes: left UNINTERPRETED (character decoding is outside the Verus subset), so that the only thing
/// used about it is that it is a function of the bytes - plus the two facts assumed of the exec
/// function below.  The Kani twins run the real counting on all short valid UTF-8 texts.
uninterp spec fn chars_count(s: Seq<u8>) -> int;

/// `s.chars().count()` of a `str` slice (trusted: at most one character per byte; exactly one per byte
/// when every byte is ASCII).
#[verifier::external_body]
fn str_chars_count(s: &[u8]) -> (r: usize)
    ensures r as int == chars_count(s@), 0 <= chars_count(s@) <= s@.len(),
        (forall|k: int| 0 <= k < s@.len() ==> (#[trigger] s@[k]) < 128u8) ==> chars_count(s@) == s@.len(),
{ unimplemented!() }

/// The same two facts as an axiom about the spec function (trusted, see str_chars_count).
#[verifier::external_body]
proof fn axiom_chars_count(s: Seq<u8>)
    ensures 0 <= chars_count(s) <= s.len(),
        (forall|k: int| 0 <= k < s.len() ==> (#[trigger] s[k]) < 128u8) ==> chars_count(s) == s.len(),
{
}

/// str::is_ascii / <[u8]>::is_ascii: every byte is below 128.
#[verifier::external_body]
fn slice_is_ascii(s: &[u8]) -> (r: bool)
    ensures r == ascii_in(s@, 0, s@.len() as int),
{ s.is_ascii() }

// ---------------------------------------------------------------------------------------------
// Types (copied from /repo).

//@@ EXTRACT file=vendored/src/text_size/size.rs anchor=<<<pub struct TextSize {>>>
//@@ KEEPSIG
//@@ END
impl Copy for TextSize {}
impl Clone for TextSize {
    fn clone(&self) -> (r: Self) ensures r == *self { *self }
}
impl TextSize {
//@@ EXTRACT file=vendored/src/text_size/size.rs anchor=<<<pub const fn new(offset: u32) -> Self {>>>
//@@ SIG
    const fn new(offset: u32) -> (r: Self)
        ensures r.raw == offset,
//@@ ENDSIG
//@@ END

//@@ EXTRACT file=vendored/src/text_size/size.rs anchor=<<<pub fn to_u32(&self) -> u32 {>>>
//@@ SIG
    fn to_u32(&self) -> (r: u32)
        ensures r == self.raw,
//@@ ENDSIG
//@@ END

//@@ EXTRACT file=vendored/src/text_size/size.rs anchor=<<<pub fn to_usize(&self) -> usize {>>>
//@@ SIG
    fn to_usize(&self) -> (r: usize)
        ensures r == self.raw,
//@@ ENDSIG
//@@ END
}

//@@ EXTRACT file=vendored/src/source_location/newlines.rs anchor=<<<pub enum LineEnding {>>>
//@@ KEEPSIG
//@@ END
impl Copy for LineEnding {}
impl Clone for LineEnding {
    fn clone(&self) -> (r: Self) ensures r == *self { *self }
}

spec fn elen(e: LineEnding) -> int { if e is CrLf { 2 } else { 1 } }

impl LineEnding {
//@@ EXTRACT file=vendored/src/source_location/newlines.rs anchor=<<<pub const fn len(&self) -> usize {>>>
//@@ SIG
    const fn len(&self) -> (r: usize)
        ensures r == elen(*self),
//@@ ENDSIG
//@@ END
}

//@@ EXTRACT file=vendored/src/source_location/newlines.rs anchor=<<<pub fn find_newline(text: &str) -> Option<(usize, LineEnding)> {>>>
//@@ SIGSUB <<<text: &str>>> ==> <<<text: &[u8]>>>
//@@ SIG
fn find_newline(text: &[u8]) -> (r: Option<(usize, LineEnding)>)
    ensures
        match r {
            Some((p, e)) => p < text@.len() && is_nl(text@[p as int]) && no_nl(text@, 0, p as int)
                && elen(e) == ending_len(text@, p as int)
                && fl(text@) == p + ending_len(text@, p as int),
            None => no_nl(text@, 0, text@.len() as int) && fl(text@) == text@.len(),
        },
//@@ ENDSIG
//@@ SUB 1 <<<let bytes = text.as_bytes();>>> ==> <<<let bytes = text;>>>
//@@ SUB 1 <<<let newline_character = unsafe { *bytes.get_unchecked(position) };>>> ==> <<<let newline_character = bytes[position]; // R6>>>
//@@ SUB 1 <<<b'\r' if bytes.get(position.saturating_add(1)) == Some(&b'\n') => LineEnding::CrLf,>>> ==> <<<b'\r' if position + 1 < bytes.len() && bytes[position + 1] == b'\n' => LineEnding::CrLf,>>>
//@@ BEFORE 1 <<<Some((position, line_ending))>>>
        proof {
            lemma_fl_at(text@, position as int);
        }
//@@ ENDBEFORE
//@@ BEFORE 1 <<<None>>>
        proof {
            lemma_fl_none(text@);
        }
//@@ ENDBEFORE
//@@ END

/// Model of OneIndexed (NonZeroU32 is outside the Verus subset); OneIndexed::MIN is the value 1
/// (proved by Kani on the real type: C15.k.one_indexed_*).
struct OneIndexed {
    v: u32,
}
impl Copy for OneIndexed {}
impl Clone for OneIndexed {
    fn clone(&self) -> (r: Self) ensures r == *self { *self }
}
impl OneIndexed {
    #[verifier::external_body]
    const fn min_value() -> (r: Self)
        ensures r.v == 1,
    { unimplemented!() }

    #[verifier::external_body]
    const fn from_zero_indexed(value: u32) -> (r: Self)
        ensures r.v >= 1, r.v as int == (if value == u32::MAX { u32::MAX as int } else { value + 1 }),
    { unimplemented!() }

    #[verifier::external_body]
    const fn saturating_add(self, rhs: u32) -> (r: Self)
        requires self.v >= 1,
        ensures r.v >= 1, r.v as int == (if self.v + rhs > u32::MAX { u32::MAX as int } else { self.v + rhs }),
    { unimplemented!() }
}

struct SourceLocation {
    row: OneIndexed,
    column: OneIndexed,
}

//@@ EXTRACT file=core/src/source_code.rs anchor=<<<struct LinearLocatorState {>>>
//@@ KEEPSIG
//@@ END

/// The state a fresh incremental locator must start from, read off the property statement: the
/// cursor is at the first column of line 1, which is the byte after a leading BOM; the recorded
/// end of the current line is the end of the FIRST line break (CR LF once) or nothing when the
/// text has a single line; the ASCII fast path (byte column = character column) is enabled only
/// when the first line's content (BOM included) is ASCII.  (Not "exactly when": a locator that
/// never takes the fast path is slower, not wrong.)
spec fn init_state_ok(b: Seq<u8>, s: LinearLocatorState) -> bool {
    &&& s.line_start.raw as int == (if has_bom(b) { 3int } else { 0int })
    &&& s.cursor == s.line_start
    &&& s.line_number.v == 1
    &&& (has_nl(b) ==> s.line_end == Some(TextSize { raw: fl(b) as u32 }) && 0 < fl(b) <= b.len())
    &&& (!has_nl(b) ==> s.line_end.is_none())
    &&& (s.is_ascii ==> ascii_in(b, 0, first_content_len(b)))
}

/// p is the first line break at or after lo.
spec fn first_nl_at(b: Seq<u8>, lo: int, p: int) -> bool {
    lo <= p < b.len() && is_nl(b[p]) && no_nl(b, lo, p)
}

/// l is the first byte of a line: the start of the text (after a BOM), or the byte after a COMPLETE line break.
spec fn is_line_start(b: Seq<u8>, l: int) -> bool {
    ||| l == (if has_bom(b) { 3int } else { 0int })
    ||| (0 < l <= b.len() && is_nl(b[l - 1]) && !(b[l - 1] == 13u8 && l < b.len() && b[l] == 10u8))
}

/// Representation invariant of the incremental locator's per-line state (row number excluded).
/// The state describes the line that contains offset c: its first byte, the end of its line break
/// (None on the last line) and an ASCII flag that may only be set when the whole line content is ASCII.
spec fn st_wf_at(b: Seq<u8>, s: LinearLocatorState, c: int) -> bool {
    let l = s.line_start.raw as int;
    &&& is_line_start(b, l)
    &&& l <= c <= b.len()
    // row = 1 + the number of line breaks (CR, LF, CRLF once each) that end at or before the line start
    &&& s.line_number.v as int == 1 + nbe(b, l)
    &&& no_nl(b, l, c)
    &&& match s.line_end {
            Some(e) => exists|p: int| #[trigger] first_nl_at(b, l, p) && e.raw as int == p + ending_len(b, p) && c <= p
                && (s.is_ascii ==> ascii_in(b, l, p)),
            None => no_nl(b, l, b.len() as int) && (s.is_ascii ==> ascii_in(b, l, b.len() as int)),
        }
}

spec fn st_wf(b: Seq<u8>, s: LinearLocatorState) -> bool { st_wf_at(b, s, s.cursor.raw as int) }

/// The offset splits a CR LF pair (not a position any token or node can have).
spec fn mid_crlf(b: Seq<u8>, o: int) -> bool { 0 < o < b.len() && b[o - 1] == 13u8 && b[o] == 10u8 }

impl LinearLocatorState {
//@@ EXTRACT file=core/src/source_code.rs anchor=<<<fn init(source: &str) -> Self {>>>
//@@ SIGSUB <<<source: &str>>> ==> <<<source: &[u8]>>>
//@@ SIG
    fn init(source: &[u8]) -> (r: Self)
        requires source@.len() <= u32::MAX, // positions are TextSize (u32) throughout the crate
        ensures init_state_ok(source@, r), st_wf(source@, r),
//@@ ENDSIG
//@@ SUB 1 <<<let mut line_start = TextSize::default();>>> ==> <<<let mut line_start = TextSize::new(0);>>>
//@@ SUB 1 <<<if source.starts_with('\u{feff}') {>>> ==> <<<if source.len() >= 3 && source[0] == 0xEF && source[1] == 0xBB && source[2] == 0xBF {>>>
//@@ SUB 1 <<<line_start += '\u{feff}'.text_len();>>> ==> <<<line_start = TextSize::new(line_start.raw + 3);>>>
//@@ SUB 1 <<<let is_ascii = source[..position].is_ascii();>>> ==> <<<let is_ascii = slice_is_ascii(&source[..position]);>>>
//@@ SUB 1 <<<(None, source.is_ascii())>>> ==> <<<(None, slice_is_ascii(source))>>>
//@@ SUB 1 <<<let line_number = OneIndexed::MIN;>>> ==> <<<let line_number = OneIndexed::min_value();>>>
//@@ AFTER 1 <<<let is_ascii = slice_is_ascii(&source[..position]);>>>
            proof {
                lemma_first_content(source@, position as int);
                assert(source@.subrange(0, position as int).len() == position);
                assert(forall|k: int| 0 <= k < position ==> source@.subrange(0, position as int)[k] == source@[k]);
                assert(is_nl(source@[position as int]));
                assert(first_nl_at(source@, line_start.raw as int, position as int));
            }
//@@ ENDAFTER
//@@ BEFORE 1 <<<(None, slice_is_ascii(source))>>>
            proof {
                lemma_first_content(source@, source@.len() as int);
            }
//@@ ENDBEFORE
//@@ AFTER 1 <<<let line_number = OneIndexed::min_value();>>>
        proof {
            // no line break ends at or before the first column of line 1 (the BOM bytes are not line breaks)
            if has_bom(source@) { lemma_nbe_flat(source@, 0, 3); }
            assert(nbe(source@, 0) == 0);
        }
//@@ ENDAFTER
//@@ END

//@@ EXTRACT file=core/src/source_code.rs anchor=<<<fn new_line_start(&self, next_offset: TextSize) -> Option<TextSize> {>>>
//@@ SIG
    fn new_line_start(&self, next_offset: TextSize) -> (r: Option<TextSize>)
        ensures
            // the cursor leaves the current line exactly when the offset is at or past the recorded line end
            r == (if self.line_end.is_some() && self.line_end.unwrap().raw <= next_offset.raw { self.line_end } else { None::<TextSize> }),
//@@ ENDSIG
//@@ SUB 1 <<<if new_line_start <= next_offset {>>> ==> <<<if new_line_start.raw <= next_offset.raw {>>>
//@@ END
}




//@@ EXTRACT file=core/src/source_code.rs anchor=<<<pub struct LinearLocator<'a> {>>>
//@@ KEEPSIG
//@@ SUB 1 <<<source: &'a str,>>> ==> <<<source: &'a [u8],>>>
//@@ SUB 1 <<<#[cfg(debug_assertions)]>>> ==> <<<>>>
//@@ SUB 1 <<<index: LineIndex,>>> ==> <<<>>>
//@@ END

/// Number of line breaks (CR, LF, CRLF once each) that END at or before offset o.
spec fn nbe(b: Seq<u8>, o: int) -> int
    decreases o
{
    if o <= 0 { 0 } else { nbe(b, o - 1) + (if is_break_end(b, o) { 1int } else { 0int }) }
}

/// No line break byte in [x-1 .. y-1)  ==>  no break ends in (x, y].
proof fn lemma_nbe_flat(b: Seq<u8>, x: int, y: int)
    requires 0 <= x <= y <= b.len(), forall|k: int| x <= k < y ==> !is_nl(#[trigger] b[k]),
    ensures nbe(b, y) == nbe(b, x),
    decreases y - x
{
    if x < y {
        lemma_nbe_flat(b, x, y - 1);
        assert(!is_nl(b[y - 1]));
        assert(!is_break_end(b, y));
    }
}

/// First nl position of a non-empty sequence that contains one.
proof fn lemma_first_nl(s: Seq<u8>, last: int) -> (q: int)
    requires 0 <= last < s.len(), is_nl(s[last]),
    ensures 0 <= q <= last, is_nl(s[q]), no_nl(s, 0, q),
    decreases last
{
    if last == 0 { 0 }
    else if exists|k: int| 0 <= k < last && is_nl(#[trigger] s[k]) {
        let k = choose|k: int| 0 <= k < last && is_nl(#[trigger] s[k]);
        lemma_first_nl(s, k)
    } else {
        assert(no_nl(s, 0, last));
        last
    }
}

/// The lines of the text between c and a line-break end e are as many as the line breaks ending in (c, e].
proof fn lemma_lines_count(b: Seq<u8>, c: int, e: int)
    requires 0 <= c <= e <= b.len(), c == e || is_break_end(b, e), !mid_crlf(b, c),
    ensures lines(b.subrange(c, e)).len() == nbe(b, e) - nbe(b, c),
    decreases e - c
{
    let s = b.subrange(c, e);
    if c == e {
        assert(s.len() == 0);
    } else {
        assert(s[s.len() - 1] == b[e - 1]);
        let q = lemma_first_nl(s, s.len() - 1);
        lemma_fl_at(s, q);
        let f = q + ending_len(s, q);
        assert(s[q] == b[c + q]);
        // the ending has the same length in s and in b (a CR that is the last byte of s is not followed by LF: e is a break end)
        assert(ending_len(s, q) == ending_len(b, c + q)) by {
            if q + 1 < s.len() { assert(s[q + 1] == b[c + q + 1]); }
        }
        assert(f <= s.len());
        let c2 = c + f;
        // exactly one break end in (c, c2]
        assert forall|k: int| c <= k < c + q implies !is_nl(#[trigger] b[k]) by { assert(s[k - c] == b[k]); }
        lemma_nbe_flat(b, c, c + q);
        assert(is_break_end(b, c2));
        if ending_len(b, c + q) == 2 {
            assert(!is_break_end(b, c + q + 1));
            assert(nbe(b, c2) == nbe(b, c + q + 1) + 1);
            assert(nbe(b, c + q + 1) == nbe(b, c + q));
        } else {
            assert(nbe(b, c2) == nbe(b, c + q) + 1);
        }
        assert(!mid_crlf(b, c2));
        assert(s.skip(f) =~= b.subrange(c2, e));
        lemma_lines_count(b, c2, e);
        assert(lines(s) == seq![s.take(f)] + lines(s.skip(f)));
    }
}

proof fn lemma_nbe_le(b: Seq<u8>, o: int)
    requires 0 <= o,
    ensures 0 <= nbe(b, o) <= o,
    decreases o
{
    if o > 0 { lemma_nbe_le(b, o - 1); }
}

/// The line break that ends the current line is the only one ending in (l, p + its length].
proof fn lemma_one_break(b: Seq<u8>, l: int, p: int)
    requires 0 <= l, first_nl_at(b, l, p),
    ensures nbe(b, p + ending_len(b, p)) == nbe(b, l) + 1, is_break_end(b, p + ending_len(b, p)),
{
    lemma_nbe_flat(b, l, p);
    let e = p + ending_len(b, p);
    if ending_len(b, p) == 2 {
        assert(!is_break_end(b, p + 1));
        assert(nbe(b, e) == nbe(b, p + 1) + 1);
        assert(nbe(b, p + 1) == nbe(b, p));
    } else {
        assert(nbe(b, e) == nbe(b, p) + 1);
    }
}

/// The cursor of a well-formed state never splits a CR LF.
proof fn lemma_cursor_not_mid(b: Seq<u8>, s: LinearLocatorState)
    requires st_wf(b, s),
    ensures !mid_crlf(b, s.cursor.raw as int), nbe(b, s.cursor.raw as int) == nbe(b, s.line_start.raw as int),
{
    let l = s.line_start.raw as int; let c = s.cursor.raw as int;
    lemma_nbe_flat(b, l, c);
    if c > l { assert(!is_nl(b[c - 1])); }
}

/// What one query of the incremental locator guarantees (rows excluded, see count_lines).
spec fn located(b: Seq<u8>, st: LinearLocatorState, o: int, column: OneIndexed) -> bool {
    &&& st_wf_at(b, st, o)
    &&& st.line_number.v as int == 1 + nbe(b, o)
    &&& (st.is_ascii ==> column.v as int == o - st.line_start.raw + 1 || (column.v == u32::MAX && o - st.line_start.raw == u32::MAX))
    // the 1-based CHARACTER column: 1 + the number of characters between the line start (after a BOM) and the offset
    &&& column.v as int == 1 + chars_count(b.subrange(st.line_start.raw as int, o))
}

spec fn pre_sub_no_nl(b: Seq<u8>, lo: int, hi: int, k: int) -> bool {
    0 <= lo <= hi <= b.len() && 0 <= k <= hi - lo
    && forall|j: int| 0 <= j < k ==> !is_nl(#[trigger] b.subrange(lo, hi)[j])
}

proof fn lemma_sub_no_nl(b: Seq<u8>, lo: int, hi: int, k: int)
    requires pre_sub_no_nl(b, lo, hi, k),
    ensures no_nl(b, lo, lo + k),
{
    let sub = b.subrange(lo, hi);
    assert forall|j: int| lo <= j < lo + k implies !is_nl(#[trigger] b[j]) by {
        assert(sub[j - lo] == b[j]);
    }
}

spec fn pre_sub_ascii(b: Seq<u8>, lo: int, hi: int) -> bool {
    0 <= lo <= hi <= b.len() && ascii_in(b.subrange(lo, hi), 0, hi - lo)
}

proof fn lemma_sub_ascii(b: Seq<u8>, lo: int, hi: int)
    requires pre_sub_ascii(b, lo, hi),
    ensures ascii_in(b, lo, hi),
{
    let sub = b.subrange(lo, hi);
    assert forall|j: int| lo <= j < hi implies (#[trigger] b[j]) < 128u8 by {
        assert(sub[j - lo] == b[j]);
    }
}

spec fn pre_focus_last(b: Seq<u8>, e0: int, o: int, i: int) -> bool {
    0 <= e0 <= o <= b.len() && 0 <= i < o - e0 && !mid_crlf(b, o)
    && is_nl(b.subrange(e0, o)[i])
    && forall|k: int| i < k < o - e0 ==> !is_nl(#[trigger] b.subrange(e0, o)[k])
}

/// The last line break byte before the offset: the byte after it starts the offset's line.
proof fn lemma_focus_last(b: Seq<u8>, e0: int, o: int, i: int)
    requires pre_focus_last(b, e0, o, i),
    ensures is_nl(b[e0 + i]), no_nl(b, e0 + i + 1, o), is_line_start(b, e0 + i + 1), is_break_end(b, e0 + i + 1),
{
    let f = b.subrange(e0, o);
    assert(f[i] == b[e0 + i]);
    assert forall|j: int| e0 + i + 1 <= j < o implies !is_nl(#[trigger] b[j]) by {
        assert(f[j - e0] == b[j]);
    }
    if e0 + i + 1 < o {
        assert(!is_nl(b[e0 + i + 1]));
    }
}

spec fn pre_focus_none(b: Seq<u8>, l: int, p: int, e0: int, o: int) -> bool {
    0 <= l && first_nl_at(b, l, p) && e0 == p + ending_len(b, p) && e0 <= o <= b.len()
    && forall|k: int| 0 <= k < o - e0 ==> !is_nl(#[trigger] b.subrange(e0, o)[k])
}

/// No line break between the recorded line end and the offset: the recorded line end starts the offset's line.
proof fn lemma_focus_none(b: Seq<u8>, l: int, p: int, e0: int, o: int)
    requires pre_focus_none(b, l, p, e0, o),
    ensures no_nl(b, e0, o), is_line_start(b, e0),
{
    lemma_sub_no_nl(b, e0, o, o - e0);
}

spec fn pre_tail_some(b: Seq<u8>, ls: int, o: int, q: int) -> bool {
    0 <= ls <= o <= b.len() && no_nl(b, ls, o) && 0 <= q < b.len() - ls
    && is_nl(b.subrange(ls, b.len() as int)[q])
    && forall|j: int| 0 <= j < q ==> !is_nl(#[trigger] b.subrange(ls, b.len() as int)[j])
}

/// First line break of the tail that starts at the new line start.
proof fn lemma_tail_some(b: Seq<u8>, ls: int, o: int, q: int)
    requires pre_tail_some(b, ls, o, q),
    ensures first_nl_at(b, ls, ls + q), o <= ls + q,
        ending_len(b.subrange(ls, b.len() as int), q) == ending_len(b, ls + q),
{
    let sub = b.subrange(ls, b.len() as int);
    lemma_sub_no_nl(b, ls, b.len() as int, q);
    assert(sub[q] == b[ls + q]);
    if ls + q + 1 < b.len() { assert(sub[q + 1] == b[ls + q + 1]); }
    if o > ls + q { assert(!is_nl(b[ls + q])); }
}

spec fn pre_same_line(b: Seq<u8>, s: LinearLocatorState, o: int) -> bool {
    st_wf(b, s) && s.cursor.raw <= o <= b.len() && !mid_crlf(b, o)
    && (s.line_end.is_none() || s.line_end.unwrap().raw > o)
}

/// The offset stays on the current line.
proof fn lemma_same_line(b: Seq<u8>, s: LinearLocatorState, o: int)
    requires pre_same_line(b, s, o),
    ensures st_wf_at(b, s, o),
{
    let l = s.line_start.raw as int;
    if s.line_end.is_some() {
        let e = s.line_end.unwrap().raw as int;
        let p = choose|p: int| #[trigger] first_nl_at(b, l, p) && e == p + ending_len(b, p) && s.cursor.raw <= p
            && (s.is_ascii ==> ascii_in(b, l, p));
        assert(o <= p);
        assert(first_nl_at(b, l, p));
    }
}

/// Moving the cursor to the located offset keeps the invariant (the line break witness is the same).
proof fn lemma_move_cursor(b: Seq<u8>, s: LinearLocatorState, s2: LinearLocatorState, o: int)
    requires st_wf_at(b, s, o), s2.line_start == s.line_start, s2.line_end == s.line_end, s2.is_ascii == s.is_ascii,
        s2.line_number == s.line_number,
        s2.cursor.raw as int == o,
    ensures st_wf(b, s2), st_wf_at(b, s2, o),
{
    let l = s.line_start.raw as int;
    if s.line_end.is_some() {
        let e = s.line_end.unwrap();
        let p = choose|p: int| #[trigger] first_nl_at(b, l, p) && e.raw as int == p + ending_len(b, p) && o <= p
            && (s.is_ascii ==> ascii_in(b, l, p));
        assert(first_nl_at(b, l, p));
    }
}

impl<'a> LinearLocator<'a> {
//@@ EXTRACT file=core/src/source_code.rs anchor=<<<fn locate_inner(>>>
//@@ SIGSUB <<<crate::text_size::TextSize>>> ==> <<<TextSize>>>
//@@ SIG
    fn locate_inner(&mut self, offset: TextSize) -> (r: (OneIndexed, Option<LinearLocatorState>))
        requires
            old(self).source@.len() < u32::MAX, // 1 + number of line breaks fits u32: OneIndexed does not saturate
            st_wf(old(self).source@, old(self).state),
            old(self).state.line_number.v >= 1,
            old(self).state.cursor.raw <= offset.raw <= old(self).source@.len(), // forward-only cursor
            !mid_crlf(old(self).source@, offset.raw as int),
        ensures
            final(self).source@ == old(self).source@,
            final(self).state == old(self).state,
            // a new per-line state is built exactly when the offset has left the current line
            r.1.is_none() <==> (old(self).state.line_end.is_none() || old(self).state.line_end.unwrap().raw > offset.raw),
            ({
                let b = old(self).source@;
                let st = match r.1 { Some(s) => s, None => old(self).state };
                // the (new) state describes the line that contains the offset ...
                &&& st_wf_at(b, st, offset.raw as int)
                // ROW: 1 + the number of line breaks (CR, LF, CRLF once each) that end at or before the offset
                &&& st.line_number.v as int == 1 + nbe(b, offset.raw as int)
                &&& (r.1.is_some() ==> st.cursor == offset && st.line_number.v >= 1)
                // ... and on an all-ASCII line the 1-based column is the byte distance from that line's first byte
                &&& (st.is_ascii ==> r.0.v as int == offset.raw - st.line_start.raw + 1 || (r.0.v == u32::MAX && offset.raw - st.line_start.raw == u32::MAX))
                // ... and in every case the 1-based CHARACTER column (on an ASCII line the two coincide)
                &&& r.0.v as int == 1 + chars_count(b.subrange(st.line_start.raw as int, offset.raw as int))
            }),
//@@ ENDSIG
//@@ SUB 1 <<<if let Some(last_newline) = memrchr2(b'\r', b'\n', focused.as_bytes()) {>>> ==> <<<if let Some(last_newline) = memrchr2(b'\r', b'\n', focused) {>>>
//@@ SUBBLOCK 1
let lines = UniversalNewlineIterator::from(
&self.source[self.state.cursor.to_usize()..last_newline + 1],
)
.count();
//@@ WITH
                    let lines = count_lines(&self.source[self.state.cursor.to_usize()..last_newline + 1]);
//@@ ENDSUB
//@@ SUB 1 <<<let column = (offset - new_line_start).to_u32();>>> ==> <<<let column = offset.raw - new_line_start.raw;>>>
//@@ SUBRE 2 <<<let is_ascii = self\.source\[([^\]]*)\]\.is_ascii\(\);>>> ==> <<<let is_ascii = slice_is_ascii(&self.source[\1]);>>>
//@@ SUB 1 <<<let column = (offset - self.state.line_start).to_u32();>>> ==> <<<let column = offset.raw - self.state.line_start.raw;>>>
//@@ AFTER 1 <<<let state = new_state.as_ref().unwrap_or(&self.state);>>>
        proof {
            // no line break ends between the line start and the offset: same row
            let b = self.source@; let l = state.line_start.raw as int;
            if 0 <= l <= offset.raw as int <= b.len() && no_nl(b, l, offset.raw as int) { lemma_nbe_flat(b, l, offset.raw as int); }
            if 0 <= l <= offset.raw as int <= b.len() { axiom_chars_count(b.subrange(l, offset.raw as int)); }
        }
//@@ ENDAFTER
//@@ SUBBLOCK 1
self.source[state.line_start.to_usize()..][..column as usize]
.chars()
.count() as u32
//@@ WITH
            str_chars_count(&self.source[state.line_start.to_usize()..state.line_start.to_usize() + column as usize]) as u32
//@@ ENDSUB
//@@ AFTER 1 <<<let column = offset.to_u32() - line_start;>>>
                    proof {
                        if pre_focus_last(self.source@, new_line_start.raw as int, offset.raw as int, last_newline - new_line_start.raw) {
                            lemma_focus_last(self.source@, new_line_start.raw as int, offset.raw as int, last_newline - new_line_start.raw);
                        }
                        // rows: the lines skipped are as many as the line breaks ending in (cursor, line_start]
                        let b = self.source@; let c = self.state.cursor.raw as int;
                        lemma_cursor_not_mid(b, self.state);
                        if 0 <= c <= line_start as int <= b.len() && is_break_end(b, line_start as int) {
                            lemma_lines_count(b, c, line_start as int);
                        }
                        lemma_nbe_le(b, line_start as int);
                        lemma_nbe_le(b, c);
                    }
//@@ ENDAFTER
//@@ AFTER 1 <<<let column = offset.raw - new_line_start.raw;>>>
                    proof {
                        let b = self.source@; let l = self.state.line_start.raw as int;
                        let p = choose|p: int| #[trigger] first_nl_at(b, l, p) && new_line_start.raw as int == p + ending_len(b, p);
                        if pre_focus_none(b, l, p, new_line_start.raw as int, offset.raw as int) {
                            lemma_focus_none(b, l, p, new_line_start.raw as int, offset.raw as int);
                        }
                        if 0 <= l && first_nl_at(b, l, p) { lemma_one_break(b, l, p); }
                        lemma_nbe_le(b, new_line_start.raw as int);
                    }
//@@ ENDAFTER
//@@ AFTER 1 <<<re:let is_ascii = slice_is_ascii\(&self\.source\[[^\]]*\.\.\w+\]\);>>>
                proof {
                    let b = self.source@;
                    if pre_tail_some(b, line_start as int, offset.raw as int, newline - line_start) {
                        lemma_tail_some(b, line_start as int, offset.raw as int, newline - line_start);
                    }
                    if is_ascii && pre_sub_ascii(b, line_start as int, newline as int) { lemma_sub_ascii(b, line_start as int, newline as int); }
                }
//@@ ENDAFTER
//@@ AFTER 1 <<<re:let is_ascii = slice_is_ascii\(&self\.source\[[^\]]*\.\.\]\);>>>
                proof {
                    let b = self.source@;
                    if pre_sub_no_nl(b, line_start as int, b.len() as int, b.len() - line_start) {
                        lemma_sub_no_nl(b, line_start as int, b.len() as int, b.len() - line_start);
                    }
                    if is_ascii && pre_sub_ascii(b, line_start as int, b.len() as int) { lemma_sub_ascii(b, line_start as int, b.len() as int); }
                }
//@@ ENDAFTER
//@@ AFTER 1 <<<let column = offset.raw - self.state.line_start.raw;>>>
            proof {
                if pre_same_line(self.source@, self.state, offset.raw as int) {
                    lemma_same_line(self.source@, self.state, offset.raw as int);
                }
            }
//@@ ENDAFTER
//@@ SUBBLOCK 1
#[cfg(debug_assertions)]
{
let location = SourceLocation {
row: state.line_number,
column,
};
let source_code = SourceCode::new(self.source, &self.index);
assert_eq!(
location,
source_code.source_location(offset),
"input: {} -> {} {}",
self.state.cursor.to_usize(),
offset.to_usize(),
&self.source[self.state.cursor.to_usize()..offset.to_usize()]
);
}
//@@ WITH
//@@ ENDSUB
//@@ END

//@@ EXTRACT file=core/src/source_code.rs anchor=<<<pub fn locate(&mut self, offset: crate::text_size::TextSize) -> SourceLocation {>>> nth=2
//@@ SIGSUB <<<crate::text_size::TextSize>>> ==> <<<TextSize>>>
//@@ SIG
    fn locate(&mut self, offset: TextSize) -> (r: SourceLocation)
        requires
            old(self).source@.len() < u32::MAX,
            st_wf(old(self).source@, old(self).state),
            old(self).state.line_number.v >= 1,
            old(self).state.cursor.raw <= offset.raw <= old(self).source@.len(), // R8: the debug_assert! is the precondition
            !mid_crlf(old(self).source@, offset.raw as int),
        ensures
            final(self).source@ == old(self).source@,
            // the invariant is re-established with the cursor AT the offset: any non-decreasing sequence of queries is covered
            st_wf(final(self).source@, final(self).state),
            final(self).state.cursor == offset,
            final(self).state.line_number.v >= 1,
            r.row == final(self).state.line_number,
            r.row.v as int == 1 + nbe(old(self).source@, offset.raw as int),
            located(old(self).source@, final(self).state, offset.raw as int, r.column),
//@@ ENDSIG
//@@ SUBBLOCK 1
debug_assert!(
self.state.cursor <= offset,
"{:?} -> {:?} {}",
self.state.cursor,
offset,
&self.source[offset.to_usize()..self.state.cursor.to_usize()]
);
//@@ WITH
        assert(self.state.cursor.raw <= offset.raw);
//@@ ENDSUB
//@@ AFTER 1 <<<let (column, new_state) = self.locate_inner(offset);>>>
        let ghost st0 = if new_state is Some { new_state->Some_0 } else { old(self).state };
//@@ ENDAFTER
//@@ BEFORE 1 <<<SourceLocation {>>>
        proof {
            lemma_move_cursor(old(self).source@, st0, self.state, offset.raw as int);
        }
//@@ ENDBEFORE
//@@ END

//@@ EXTRACT file=core/src/source_code.rs anchor=<<<pub fn locate_only(&mut self, offset: crate::text_size::TextSize) -> SourceLocation {>>>
//@@ SIGSUB <<<crate::text_size::TextSize>>> ==> <<<TextSize>>>
//@@ SIG
    fn locate_only(&mut self, offset: TextSize) -> (r: SourceLocation)
        requires
            old(self).source@.len() < u32::MAX,
            st_wf(old(self).source@, old(self).state),
            old(self).state.line_number.v >= 1,
            old(self).state.cursor.raw <= offset.raw <= old(self).source@.len(),
            !mid_crlf(old(self).source@, offset.raw as int),
        ensures
            // a look-ahead query leaves the locator exactly as it was
            final(self).source@ == old(self).source@,
            final(self).state == old(self).state,
            // ROW: 1 + the number of line breaks ending at or before the offset, whether or not the offset is on the current line
            r.row.v as int == 1 + nbe(old(self).source@, offset.raw as int),
            // an offset on the current line is reported from the current state (the other case is locate_inner's contract)
            (old(self).state.line_end.is_none() || old(self).state.line_end.unwrap().raw > offset.raw) ==>
                located(old(self).source@, old(self).state, offset.raw as int, r.column) && r.row == old(self).state.line_number,
//@@ ENDSIG
//@@ END
}

/// Non-vacuity and composition: the state built by init satisfies the precondition of locate, and so
/// does the state after each query (two queries chained here; the postcondition of locate is the
/// inductive step for any longer non-decreasing sequence).
fn reach_locate(source: &[u8], o1: TextSize, o2: TextSize) -> (r: (SourceLocation, SourceLocation))
    requires
        source@.len() < u32::MAX,
        (if has_bom(source@) { 3u32 } else { 0u32 }) <= o1.raw <= o2.raw <= source@.len(),
        !mid_crlf(source@, o1.raw as int), !mid_crlf(source@, o2.raw as int),
{
    let state = LinearLocatorState::init(source);
    let mut locator = LinearLocator { source, state };
    let a = locator.locate(o1);
    let b = locator.locate(o2);
    (a, b)
}

// ---------------------------------------------------------------------------------------------
// Agreement with the indexed locator.  The three definitions below are copied verbatim from the unit
// line_index (where LineIndex::from_source_text is proved to establish index_wf and
// LineIndex::source_location to return a row r with is_row_of and, on ASCII text, column = offset - starts[r] + 1).

/// `e` is the offset just after a line break of `b`.
spec fn is_break_end(b: Seq<u8>, e: int) -> bool {
    0 < e <= b.len() && (b[e - 1] == 10u8 || (b[e - 1] == 13u8 && !(e < b.len() && b[e] == 10u8)))
}

spec fn starts_sorted(s: Seq<TextSize>) -> bool {
    forall|i: int, j: int| 0 <= i < j < s.len() ==> s[i].raw < s[j].raw
}

spec fn index_wf(s: Seq<TextSize>, b: Seq<u8>) -> bool {
    &&& s.len() >= 1
    &&& s[0].raw == 0
    &&& starts_sorted(s)
    &&& forall|k: int| 1 <= k < s.len() ==> is_break_end(b, #[trigger] s[k].raw as int)
    &&& forall|e: int| is_break_end(b, e) ==> exists|k: int| 1 <= k < s.len() && #[trigger] s[k].raw == e
}

spec fn is_row_of(s: Seq<TextSize>, o: int, r: int) -> bool {
    0 <= r < s.len() && s[r].raw <= o && (r + 1 < s.len() ==> o < s[r + 1].raw)
}

/// THEOREM (second sentence of C13, line part): whatever state the incremental locator answers an
/// offset from, its line start is the start of the very row the line index reports for that offset -
/// on the first line of a text with a BOM the index says 0 and the incremental locator 3 (the BOM is
/// not counted by either: LineIndex::source_location skips it when it computes the column).
proof fn theorem_locators_same_line(idx: Seq<TextSize>, b: Seq<u8>, st: LinearLocatorState, o: int, r: int)
    requires index_wf(idx, b), st_wf_at(b, st, o), is_row_of(idx, o, r),
    ensures
        idx[r].raw as int == (if r == 0 && has_bom(b) { st.line_start.raw - 3 } else { st.line_start.raw as int }),
{
    let l = st.line_start.raw as int;
    let e = idx[r].raw as int;
    if r >= 1 {
        // the row start is a line-break end at or before the offset: it cannot lie after l
        assert(is_break_end(b, e));
        if e > l {
            assert(is_nl(b[e - 1]));
            assert(false);
        }
    }
    if is_break_end(b, l) {
        let k = choose|k: int| 1 <= k < idx.len() && #[trigger] idx[k].raw == l;
        if k > r {
            assert(r + 1 < idx.len());
            if k > r + 1 { assert(idx[r + 1].raw < idx[k].raw); }
            assert(false);
        }
        if k < r { assert(idx[k].raw < idx[r].raw); }
    } else {
        // first line
        assert(l == (if has_bom(b) { 3int } else { 0int }));
        if r >= 1 {
            assert(e <= l);
            assert(is_nl(b[e - 1]));
            assert(false);
        }
    }
}

/// THEOREM (columns): the slice whose characters the line index counts for its column starts where the
/// incremental locator's line starts, so both count the characters of the SAME bytes: same column,
/// ASCII or not (chars_count is a function of the bytes).
proof fn theorem_locators_same_column_slice(idx: Seq<TextSize>, b: Seq<u8>, st: LinearLocatorState, o: int, r: int)
    requires index_wf(idx, b), st_wf_at(b, st, o), is_row_of(idx, o, r),
    ensures
        (if idx[r].raw == 0 && has_bom(b) && o > 0 { 3int } else { idx[r].raw as int }) == st.line_start.raw,
{
    theorem_locators_same_line(idx, b, st, o, r);
    if r > 0 { assert(idx[0].raw < idx[r].raw); }
}

/// THEOREM (rows): the row a well-formed line index reports for an offset (0-based r, is_row_of) is the
/// number of line breaks ending at or before the offset - which is what the incremental locator is proved
/// to return (1-based) by locate / locate_inner.  Hence both locators return the same row.
proof fn theorem_index_row_is_break_count(idx: Seq<TextSize>, b: Seq<u8>, o: int, r: int)
    requires index_wf(idx, b), is_row_of(idx, o, r), 0 <= o,
    ensures r == nbe(b, o),
    decreases o
{
    if o == 0 {
        if r > 0 { assert(idx[0].raw < idx[r].raw); }
    } else if is_break_end(b, o) {
        let k = choose|k: int| 1 <= k < idx.len() && #[trigger] idx[k].raw == o;
        if k < r { assert(idx[k].raw < idx[r].raw); }
        if k > r {
            if k > r + 1 { assert(idx[r + 1].raw < idx[k].raw); }
            assert(false);
        }
        assert(idx[k - 1].raw < idx[k].raw);
        assert(is_row_of(idx, o - 1, k - 1));
        theorem_index_row_is_break_count(idx, b, o - 1, k - 1);
    } else {
        if idx[r].raw == o {
            if r == 0 { assert(false); } else { assert(is_break_end(b, idx[r].raw as int)); assert(false); }
        }
        assert(is_row_of(idx, o - 1, r));
        theorem_index_row_is_break_count(idx, b, o - 1, r);
    }
}

/// THEOREM (line count, C15): a well-formed line index has one entry more than the text has line breaks
/// (CR, LF, CRLF once each) - "the number of lines equals the number of line breaks plus one".
proof fn theorem_line_count(idx: Seq<TextSize>, b: Seq<u8>)
    requires index_wf(idx, b),
    ensures idx.len() == 1 + nbe(b, b.len() as int),
{
    let last = idx.len() - 1;
    if last >= 1 { assert(is_break_end(b, idx[last].raw as int)); }
    assert(is_row_of(idx, b.len() as int, last));
    theorem_index_row_is_break_count(idx, b, b.len() as int, last);
}

/// Vacuity guard for the theorem: rows other than the first exist.
proof fn canary_same_line(idx: Seq<TextSize>, b: Seq<u8>, st: LinearLocatorState, o: int, r: int)
    requires index_wf(idx, b), st_wf_at(b, st, o), is_row_of(idx, o, r),
    ensures idx[r].raw == 0,
{
}

/// Vacuity guard: must be rejected (a text with a line break does have a recorded line end).
proof fn canary_linear_locate(b: Seq<u8>, s: LinearLocatorState)
    requires st_wf(b, s), b.len() > 0,
    ensures s.line_end.is_none(),
{
}

} // verus!
fn main() {}
