// Verus unit: format/src/cformat.rs CFormatSpec::format_bytes (C19: b'%[-][width][.precision]s' % bytes).
// The function works on bytes already; nothing of its body is rewritten except the flag test (bitflags
// macro type, R22).  CFormatSpec is declared here with the three fields the function reads (the others -
// mapping_key, format_type, format_char - are not referenced by it: frame abstraction, stated in DESIGN).
use vstd::prelude::*;
verus! {

//@@ EXTRACT file=format/src/cformat.rs anchor=<<<pub enum CFormatQuantity {>>>
//@@ KEEPSIG
//@@ END

//@@ EXTRACT file=format/src/cformat.rs anchor=<<<pub enum CFormatPrecision {>>>
//@@ KEEPSIG
//@@ END

/// Model of the bitflags type: only "is LEFT_ADJUST set" is observed.
struct CConversionFlags {
    bits: u32,
}
impl CConversionFlags {
    spec fn left_adjust(&self) -> bool { self.bits & 4 == 4 }

    /// `self.flags.contains(CConversionFlags::LEFT_ADJUST)` (LEFT_ADJUST = 0b100; bitflags' contains =
    /// all bits of the argument are set).
    #[verifier::external_body]
    fn contains_left_adjust(&self) -> (r: bool)
        ensures r == self.left_adjust(),
    { unimplemented!() }
}

struct CFormatSpec {
    flags: CConversionFlags,
    min_field_width: Option<CFormatQuantity>,
    precision: Option<CFormatPrecision>,
}

pub assume_specification<T: core::cmp::Ord + core::marker::Destruct> [core::cmp::min] (a: T, b: T) -> (r: T);

/// cmp::min on usize (the generic assume_specification above carries no postcondition).
#[verifier::external_body]
fn min_usize(a: usize, b: usize) -> (r: usize)
    ensures r == (if a <= b { a } else { b }),
{ core::cmp::min(a, b) }

pub assume_specification<T: Clone> [<[T]>::to_vec] (s: &[T]) -> (r: Vec<T>)
    ensures r@.len() == s@.len(), forall|i: int| 0 <= i < s@.len() ==> cloned::<T>(s@[i], #[trigger] r@[i]);

/// Python: a precision truncates the argument (a '.' without digits is the precision 0; `*` is resolved
/// before formatting and leaves the argument alone here).
spec fn truncated(b: Seq<u8>, p: Option<CFormatPrecision>) -> Seq<u8> {
    match p {
        Some(CFormatPrecision::Quantity(CFormatQuantity::Amount(n))) => if (n as int) < b.len() { b.take(n as int) } else { b },
        Some(CFormatPrecision::Dot) => Seq::<u8>::empty(),
        _ => b,
    }
}

spec fn spaces(n: int) -> Seq<u8> { Seq::new(if n > 0 { n as nat } else { 0nat }, |i: int| 32u8) }

/// Python: a width pads with spaces, on the right with the '-' flag, on the left otherwise; never truncates.
spec fn padded(t: Seq<u8>, w: Option<CFormatQuantity>, left: bool) -> Seq<u8> {
    match w {
        Some(CFormatQuantity::Amount(n)) => if left { t + spaces(n - t.len()) } else { spaces(n - t.len()) + t },
        _ => t,
    }
}

impl CFormatSpec {
//@@ EXTRACT file=format/src/cformat.rs anchor=<<<pub fn format_bytes(&self, bytes: &[u8]) -> Vec<u8> {>>>
//@@ SIG
    fn format_bytes(&self, bytes: &[u8]) -> (r: Vec<u8>)
        ensures
            r@ == padded(truncated(bytes@, self.precision), self.min_field_width, self.flags.left_adjust()),
//@@ ENDSIG
//@@ SUB 1 <<<&bytes[..cmp::min(bytes.len(), precision)]>>> ==> <<<&bytes[..min_usize(bytes.len(), precision)]>>>
//@@ SUB 1 <<<if self.flags.contains(CConversionFlags::LEFT_ADJUST) {>>> ==> <<<if self.flags.contains_left_adjust() {>>>
//@@ END
}

/// Vacuity guard: must be rejected.
proof fn canary_format_bytes(b: Seq<u8>, w: Option<CFormatQuantity>)
    ensures padded(b, w, true) == b,
{
}

} // verus!
fn main() {}
