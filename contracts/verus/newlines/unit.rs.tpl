// Verus unit: vendored/src/source_location/newlines.rs (C15: the universal newline iterator).
// &str is retyped to &[u8] (rule R7): every cut point below is proved to be adjacent to an ASCII
// CR/LF byte; the char-boundary panics of str slicing that R7 drops are covered by the Kani twin.
use vstd::prelude::*;
verus! {

spec fn is_nl(c: u8) -> bool { c == 10u8 || c == 13u8 }

spec fn no_nl(b: Seq<u8>, lo: int, hi: int) -> bool {
    forall|k: int| lo <= k < hi ==> !is_nl(#[trigger] b[k])
}

/// Length of the line ending that starts at p (b[p] is CR or LF): CR LF counts once.
spec fn ending_len(b: Seq<u8>, p: int) -> int {
    if b[p] == 13u8 && p + 1 < b.len() && b[p + 1] == 10u8 { 2 } else { 1 }
}

/// Length of the first line of b including its line ending (the whole of b if it has none).
spec fn fl(b: Seq<u8>) -> int
    decreases b.len()
{
    if b.len() == 0 {
        0
    } else if is_nl(b[0]) {
        ending_len(b, 0)
    } else {
        1 + fl(b.skip(1))
    }
}

/// The lines of b, each including its line ending: CR, LF and CRLF each end one line.
spec fn lines(b: Seq<u8>) -> Seq<Seq<u8>>
    decreases b.len()
{
    let f = fl(b);
    if b.len() == 0 || f <= 0 || f > b.len() {
        Seq::<Seq<u8>>::empty()
    } else {
        seq![b.take(f)] + lines(b.skip(f))
    }
}

/// Length of the last line of b (defined from the front: the last element of lines(b)).
spec fn ll(b: Seq<u8>) -> int
    decreases b.len()
{
    let f = fl(b);
    if b.len() == 0 || f <= 0 || f >= b.len() {
        b.len() as int
    } else {
        ll(b.skip(f))
    }
}

proof fn lemma_fl_bounds(b: Seq<u8>)
    ensures b.len() > 0 ==> 1 <= fl(b) <= b.len(), b.len() == 0 ==> fl(b) == 0,
    decreases b.len()
{
    if b.len() > 0 && !is_nl(b[0]) {
        lemma_fl_bounds(b.skip(1));
    }
}

/// fl from the position of the first line break.
proof fn lemma_fl_at(b: Seq<u8>, p: int)
    requires 0 <= p < b.len(), is_nl(b[p]), no_nl(b, 0, p),
    ensures fl(b) == p + ending_len(b, p),
    decreases p
{
    if p > 0 {
        assert(!is_nl(b[0]));
        let t = b.skip(1);
        assert(forall|k: int| 0 <= k < p - 1 ==> t[k] == b[k + 1]);
        assert(no_nl(t, 0, p - 1));
        lemma_fl_at(t, p - 1);
        assert(t[p - 1] == b[p]);
        assert(ending_len(t, p - 1) == ending_len(b, p)) by {
            if p + 1 < b.len() { assert(t[p] == b[p + 1]); }
        }
    }
}

proof fn lemma_fl_none(b: Seq<u8>)
    requires no_nl(b, 0, b.len() as int),
    ensures fl(b) == b.len(),
    decreases b.len()
{
    if b.len() > 0 {
        let t = b.skip(1);
        assert(forall|k: int| 0 <= k < t.len() ==> t[k] == b[k + 1]);
        lemma_fl_none(t);
    }
}


/// First line break position, as a witness for proofs: exists iff fl(b) is decided by a break.
proof fn lemma_first_break(b: Seq<u8>) -> (p: int)
    requires b.len() > 0,
    ensures
        0 <= p <= b.len(), no_nl(b, 0, p),
        p < b.len() ==> is_nl(b[p]) && fl(b) == p + ending_len(b, p),
        p == b.len() ==> fl(b) == b.len(),
    decreases b.len()
{
    if is_nl(b[0]) {
        0
    } else if b.len() == 1 {
        lemma_fl_none(b);
        1
    } else {
        let t = b.skip(1);
        let q = lemma_first_break(t);
        assert(forall|k: int| 0 <= k < t.len() ==> t[k] == b[k + 1]);
        assert(no_nl(b, 0, q + 1)) by {
            assert forall|k: int| 0 <= k < q + 1 implies !is_nl(#[trigger] b[k]) by {
                if k > 0 { assert(t[k - 1] == b[k]); }
            }
        }
        if q < t.len() {
            lemma_fl_at(b, q + 1);
        } else {
            lemma_fl_none(b);
        }
        q + 1
    }
}

/// Length of the text without its trailing line ending (CR LF is one ending).
spec fn trim_len(b: Seq<u8>) -> int {
    let n = b.len() as int;
    if n == 0 {
        0
    } else if b[n - 1] == 10u8 && n > 1 && b[n - 2] == 13u8 {
        n - 2
    } else if is_nl(b[n - 1]) {
        n - 1
    } else {
        n
    }
}

/// The backward scan of next_back finds the last line as defined from the front.
proof fn lemma_ll_back(b: Seq<u8>)
    requires b.len() > 0,
    ensures
        forall|j: int| 0 <= j < trim_len(b) && is_nl(#[trigger] b[j]) && no_nl(b, j + 1, trim_len(b)) ==> ll(b) == b.len() - (j + 1),
        no_nl(b, 0, trim_len(b)) ==> ll(b) == b.len(),
    decreases b.len()
{
    let n = b.len() as int;
    let t = trim_len(b);
    let f = fl(b);
    lemma_fl_bounds(b);
    let p = lemma_first_break(b);
    if f >= n {
        // a single line: the only line break, if any, is the trailing one
        assert(ll(b) == n);
        if p < n {
            assert(p + ending_len(b, p) == n);
            assert(t == p) by {
                if ending_len(b, p) == 2 {
                    assert(b[n - 1] == 10u8 && b[n - 2] == 13u8);
                } else {
                    assert(p == n - 1);
                    if n > 1 { assert(!is_nl(b[n - 2])); }
                }
            }
        } else {
            assert(!is_nl(b[n - 1]));
            assert(t == n);
        }
        assert forall|j: int| 0 <= j < t && is_nl(#[trigger] b[j]) && no_nl(b, j + 1, t) implies ll(b) == n - (j + 1) by {
            assert(!is_nl(b[j])); // j < t <= p contradicts no_nl(b, 0, p)
        }
    } else {
        let rest = b.skip(f);
        let m = rest.len() as int;
        assert(m == n - f && m > 0);
        assert(forall|k: int| 0 <= k < m ==> rest[k] == b[k + f]);
        assert(ll(b) == ll(rest));
        assert(p < n && f == p + ending_len(b, p));
        // the last byte of the first line is not a CR that pairs with a following LF
        assert(!(b[f - 1] == 13u8 && b[f] == 10u8)) by {
            if ending_len(b, p) == 2 { assert(b[f - 1] == 10u8); }
        }
        let tr = trim_len(rest);
        assert(tr == t - f) by {
            assert(rest[m - 1] == b[n - 1]);
            if m > 1 { assert(rest[m - 2] == b[n - 2]); }
        }
        lemma_ll_back(rest);
        assert forall|j: int| 0 <= j < t && is_nl(#[trigger] b[j]) && no_nl(b, j + 1, t) implies ll(b) == n - (j + 1) by {
            if j >= f {
                let jr = j - f;
                assert(rest[jr] == b[j]);
                assert(no_nl(rest, jr + 1, tr)) by {
                    assert forall|k: int| jr + 1 <= k < tr implies !is_nl(#[trigger] rest[k]) by {
                        assert(rest[k] == b[k + f]);
                    }
                }
                assert(ll(rest) == m - (jr + 1));
            } else {
                // j is the last byte of the first line's ending
                assert(j >= p) by { if j < p { assert(!is_nl(b[j])); } }
                assert(j == f - 1) by {
                    if j < f - 1 {
                        // then the ending is CR LF and j = p: the LF at p + 1 < t contradicts no_nl(j+1, t)
                        assert(j == p && f == p + 2);
                        assert(is_nl(b[p + 1]));
                        assert(p + 1 < t);
                    }
                }
                assert(no_nl(rest, 0, tr)) by {
                    assert forall|k: int| 0 <= k < tr implies !is_nl(#[trigger] rest[k]) by {
                        assert(rest[k] == b[k + f]);
                    }
                }
                assert(ll(rest) == m);
            }
        }
        if no_nl(b, 0, t) {
            assert(p < t);
            assert(!is_nl(b[p]));
        }
    }
}


// ---------------------------------------------------------------------------------------------
// The property: front, back and mixed consumption yield the same lines.

/// A prefix that contains the whole first line has the same first line.
proof fn lemma_fl_prefix(b: Seq<u8>, k: int)
    requires b.len() > 0, fl(b) <= k <= b.len(),
    ensures fl(b.take(k)) == fl(b),
{
    let p = lemma_first_break(b);
    lemma_fl_bounds(b);
    let c = b.take(k);
    assert(forall|i: int| 0 <= i < k ==> c[i] == b[i]);
    if p < b.len() {
        assert(p < k);
        assert(no_nl(c, 0, p)) by {
            assert forall|i: int| 0 <= i < p implies !is_nl(#[trigger] c[i]) by { assert(c[i] == b[i]); }
        }
        assert(c[p] == b[p]);
        assert(ending_len(c, p) == ending_len(b, p)) by {
            if p + 1 < k { assert(c[p + 1] == b[p + 1]); }
        }
        lemma_fl_at(c, p);
    } else {
        assert(k == b.len());
        assert(c =~= b);
    }
}

/// lines(b) also decomposes from the back: its last element is the last line (as next_back yields
/// it) and the lines of what remains are all the others.
proof fn lemma_lines_back(b: Seq<u8>)
    requires b.len() > 0,
    ensures
        1 <= ll(b) <= b.len(),
        lines(b).len() >= 1,
        lines(b).last() == b.skip(b.len() - ll(b)),
        lines(b.take(b.len() - ll(b))) == lines(b).drop_last(),
    decreases b.len()
{
    let n = b.len() as int;
    let f = fl(b);
    lemma_fl_bounds(b);
    if f >= n {
        assert(b.take(f) =~= b);
        assert(b.skip(f) =~= Seq::<u8>::empty());
        assert(lines(b.skip(f)) =~= Seq::<Seq<u8>>::empty());
        assert(lines(b) =~= seq![b]);
        assert(b.skip(0) =~= b);
        assert(b.take(0) =~= Seq::<u8>::empty());
        assert(lines(b.take(0)) =~= Seq::<Seq<u8>>::empty());
        assert(lines(b).drop_last() =~= Seq::<Seq<u8>>::empty());
    } else {
        let rest = b.skip(f);
        let m = rest.len() as int;
        lemma_lines_back(rest);
        let l = ll(rest);
        assert(ll(b) == l);
        assert(lines(b) =~= seq![b.take(f)] + lines(rest));
        assert(lines(b).last() == lines(rest).last());
        assert(rest.skip(m - l) =~= b.skip(n - l));
        let bi = b.take(n - l);
        assert(n - l >= f);
        lemma_fl_prefix(b, n - l);
        assert(fl(bi) == f);
        assert(bi.take(f) =~= b.take(f));
        assert(bi.skip(f) =~= rest.take(m - l));
        assert(lines(bi) =~= seq![b.take(f)] + lines(rest.take(m - l)));
        assert(lines(b).drop_last() =~= seq![b.take(f)] + lines(rest).drop_last());
    }
}

spec fn flatten(ls: Seq<Seq<u8>>) -> Seq<u8>
    decreases ls.len()
{
    if ls.len() == 0 { Seq::<u8>::empty() } else { ls[0] + flatten(ls.skip(1)) }
}

/// The lines concatenate to the original text, and none is empty.
proof fn lemma_lines_concat(b: Seq<u8>)
    ensures
        flatten(lines(b)) == b,
        forall|i: int| 0 <= i < lines(b).len() ==> (#[trigger] lines(b)[i]).len() > 0,
    decreases b.len()
{
    lemma_fl_bounds(b);
    if b.len() > 0 {
        let f = fl(b);
        let rest = b.skip(f);
        lemma_lines_concat(rest);
        let ls = lines(b);
        assert(ls =~= seq![b.take(f)] + lines(rest));
        assert(ls.skip(1) =~= lines(rest));
        assert(ls[0] == b.take(f));
        assert(b.take(f) + rest =~= b);
        assert forall|i: int| 0 <= i < ls.len() implies (#[trigger] ls[i]).len() > 0 by {
            if i > 0 { assert(ls[i] == lines(rest)[i - 1]); }
        }
    } else {
        assert(lines(b) =~= Seq::<Seq<u8>>::empty());
    }
}

/// Abstract run of the double-ended iterator: choices[i] == true takes from the front (next),
/// false from the back (next_back).  Result: (lines yielded at the front in order, lines yielded at
/// the back in order of being yielded, remaining text).  The steps are exactly the postconditions of
/// `next` and `next_back` above.
spec fn run(b: Seq<u8>, choices: Seq<bool>) -> (Seq<Seq<u8>>, Seq<Seq<u8>>, Seq<u8>)
    decreases choices.len()
{
    if choices.len() == 0 || b.len() == 0 {
        (Seq::<Seq<u8>>::empty(), Seq::<Seq<u8>>::empty(), b)
    } else if choices[0] {
        let f = fl(b);
        let r = run(b.skip(f), choices.skip(1));
        (seq![b.take(f)] + r.0, r.1, r.2)
    } else {
        let l = ll(b);
        let r = run(b.take(b.len() - l), choices.skip(1));
        (r.0, seq![b.skip(b.len() - l)] + r.1, r.2)
    }
}

/// C15: "the universal newline iterator yields the same lines whether consumed from the front,
/// the back or both ends alternately" - for every text and every interleaving of next()/next_back():
/// front lines, then the lines of what is left, then the back lines in reverse order of being
/// yielded, are exactly lines(text).
proof fn theorem_any_interleaving(b: Seq<u8>, choices: Seq<bool>)
    ensures
        run(b, choices).0 + lines(run(b, choices).2) + run(b, choices).1.reverse() == lines(b),
    decreases choices.len()
{
    let e = Seq::<Seq<u8>>::empty();
    if choices.len() == 0 || b.len() == 0 {
        assert(e.reverse() =~= e);
        assert(e + lines(b) + e =~= lines(b));
    } else if choices[0] {
        let f = fl(b);
        lemma_fl_bounds(b);
        let rest = b.skip(f);
        let r = run(rest, choices.skip(1));
        theorem_any_interleaving(rest, choices.skip(1));
        assert(lines(b) =~= seq![b.take(f)] + lines(rest));
        assert((seq![b.take(f)] + r.0) + lines(r.2) + r.1.reverse() =~= seq![b.take(f)] + (r.0 + lines(r.2) + r.1.reverse()));
    } else {
        let l = ll(b);
        lemma_lines_back(b);
        let init = b.take(b.len() - l);
        let last = b.skip(b.len() - l);
        let r = run(init, choices.skip(1));
        theorem_any_interleaving(init, choices.skip(1));
        assert(lines(b) =~= lines(b).drop_last().push(lines(b).last()));
        assert((seq![last] + r.1).reverse() =~= r.1.reverse().push(last));
        assert(r.0 + lines(r.2) + r.1.reverse().push(last) =~= (r.0 + lines(r.2) + r.1.reverse()).push(last));
    }
}

/// Vacuity guard: must be rejected.
proof fn canary_newlines(b: Seq<u8>)
    requires b.len() > 0,
    ensures lines(b).len() == 1,
{
}

// ---------------------------------------------------------------------------------------------
// Assumed contracts of the memchr crate (documented behaviour: first / last index of either byte).

#[verifier::external_body]
fn memchr2(n1: u8, n2: u8, haystack: &[u8]) -> (r: Option<usize>)
    ensures
        match r {
            Some(i) => i < haystack@.len() && (haystack@[i as int] == n1 || haystack@[i as int] == n2)
                && forall|k: int| 0 <= k < i ==> (#[trigger] haystack@[k]) != n1 && haystack@[k] != n2,
            None => forall|k: int| 0 <= k < haystack@.len() ==> (#[trigger] haystack@[k]) != n1 && haystack@[k] != n2,
        },
{ unimplemented!() }

#[verifier::external_body]
fn memrchr2(n1: u8, n2: u8, haystack: &[u8]) -> (r: Option<usize>)
    ensures
        match r {
            Some(i) => i < haystack@.len() && (haystack@[i as int] == n1 || haystack@[i as int] == n2)
                && forall|k: int| i < k < haystack@.len() ==> (#[trigger] haystack@[k]) != n1 && haystack@[k] != n2,
            None => forall|k: int| 0 <= k < haystack@.len() ==> (#[trigger] haystack@[k]) != n1 && haystack@[k] != n2,
        },
{ unimplemented!() }

/// std::mem::take on a slice reference: returns the old slice and leaves the empty slice (R13).
#[verifier::external_body]
fn take_text<'a>(t: &mut &'a [u8]) -> (r: &'a [u8])
    ensures r@ == old(t)@, final(t)@.len() == 0,
{ std::mem::take(t) }

// ---------------------------------------------------------------------------------------------

struct TextSize {
    raw: u32,
}
impl Copy for TextSize {}
impl Clone for TextSize {
    fn clone(&self) -> (r: Self) ensures r == *self { *self }
}

//@@ EXTRACT file=vendored/src/source_location/newlines.rs anchor=<<<pub enum LineEnding {>>>
//@@ KEEPSIG
//@@ END
impl Copy for LineEnding {}
impl Clone for LineEnding {
    fn clone(&self) -> (r: Self) ensures r == *self { *self }
}

spec fn elen(e: LineEnding) -> int { if e is CrLf { 2 } else { 1 } }

impl LineEnding {
//@@ EXTRACT file=vendored/src/source_location/newlines.rs anchor=<<<pub const fn len(&self) -> usize {>>>
//@@ SIG
    const fn len(&self) -> (r: usize)
        ensures r == elen(*self),
//@@ ENDSIG
//@@ END
}

//@@ EXTRACT file=vendored/src/source_location/newlines.rs anchor=<<<pub struct Line<'a> {>>>
//@@ KEEPSIG
//@@ SUB 1 <<<text: &'a str,>>> ==> <<<text: &'a [u8],>>>
//@@ END

// ---------------------------------------------------------------------------------------------
// Line: positions and text of one line.

//@@ EXTRACT file=vendored/src/text_size/range.rs anchor=<<<pub struct TextRange {>>>
//@@ KEEPSIG
//@@ END

impl TextRange {
//@@ EXTRACT file=vendored/src/text_size/range.rs anchor=<<<pub const fn new(start: TextSize, end: TextSize) -> TextRange {>>>
//@@ SIG
    const fn new(start: TextSize, end: TextSize) -> (r: TextRange)
        requires start.raw <= end.raw, // R8: the run-time assert! is the precondition
        ensures r.start == start, r.end == end,
//@@ ENDSIG
//@@ SUB 1 <<<assert!(start.raw <= end.raw);>>> ==> <<<assert(start.raw <= end.raw);>>>
//@@ END

//@@ EXTRACT file=vendored/src/text_size/range.rs anchor=<<<pub fn at(offset: TextSize, len: TextSize) -> TextRange {>>>
//@@ SIG
    fn at(offset: TextSize, len: TextSize) -> (r: TextRange)
        requires offset.raw + len.raw <= u32::MAX,
        ensures r.start == offset, r.end.raw == offset.raw + len.raw,
//@@ ENDSIG
//@@ SUB 1 <<<TextRange::new(offset, offset + len)>>> ==> <<<TextRange::new(offset, TextSize { raw: offset.raw + len.raw })>>>
//@@ END
}

/// `self.text.bytes().rev()`: the bytes from the back (R18: definition of a reversed byte iterator; the
/// real iterator runs in the Kani twin C15.k.line_as_str).
struct RevBytes<'a> {
    s: &'a [u8],
    n: usize,
}
impl<'a> RevBytes<'a> {
    fn new(s: &'a [u8]) -> (r: Self)
        ensures r.s@ == s@, r.n == s@.len(),
    { RevBytes { s, n: s.len() } }

    fn next(&mut self) -> (r: Option<u8>)
        requires old(self).n <= old(self).s@.len(),
        ensures final(self).s@ == old(self).s@,
            old(self).n == 0 ==> r.is_none() && final(self).n == 0,
            old(self).n > 0 ==> r == Some(old(self).s@[old(self).n - 1]) && final(self).n == old(self).n - 1,
    {
        if self.n == 0 { None } else { self.n = self.n - 1; Some(self.s[self.n]) }
    }
}

/// A line as the iterator hands it out: its text ends in the text, within u32 positions.
spec fn line_wf(l: Line) -> bool { l.offset.raw + l.text@.len() <= u32::MAX }

impl<'a> Line<'a> {
//@@ EXTRACT file=vendored/src/source_location/newlines.rs anchor=<<<pub const fn start(&self) -> TextSize {>>>
//@@ SIG
    const fn start(&self) -> (r: TextSize)
        ensures r == self.offset,
//@@ ENDSIG
//@@ END

//@@ EXTRACT file=vendored/src/source_location/newlines.rs anchor=<<<pub fn full_text_len(&self) -> TextSize {>>>
//@@ SIG
    fn full_text_len(&self) -> (r: TextSize)
        requires line_wf(*self),
        ensures r.raw == self.text@.len(),
//@@ ENDSIG
//@@ SUB 1 <<<self.text.text_len()>>> ==> <<<TextSize { raw: self.text.len() as u32 }>>>
//@@ END

//@@ EXTRACT file=vendored/src/source_location/newlines.rs anchor=<<<pub fn full_end(&self) -> TextSize {>>>
//@@ SIG
    fn full_end(&self) -> (r: TextSize)
        requires line_wf(*self),
        ensures r.raw == self.offset.raw + self.text@.len(),
//@@ ENDSIG
//@@ SUB 1 <<<self.offset + self.full_text_len()>>> ==> <<<TextSize { raw: self.offset.raw + self.full_text_len().raw }>>>
//@@ END

//@@ EXTRACT file=vendored/src/source_location/newlines.rs anchor=<<<pub fn as_str(&self) -> &'a str {>>>
//@@ SIGSUB <<<&'a str>>> ==> <<<&'a [u8]>>>
//@@ SIG
    fn as_str(&self) -> (r: &'a [u8])
        ensures
            // the text without its line ending: exactly one trailing LF, CR LF or CR is stripped
            r@ == self.text@.take(trim_len(self.text@)),
//@@ ENDSIG
//@@ SUB 1 <<<let mut bytes = self.text.bytes().rev();>>> ==> <<<let mut bytes = RevBytes::new(self.text);>>>
//@@ END

//@@ EXTRACT file=vendored/src/source_location/newlines.rs anchor=<<<pub fn end(&self) -> TextSize {>>>
//@@ SIG
    fn end(&self) -> (r: TextSize)
        requires line_wf(*self),
        ensures r.raw == self.offset.raw + trim_len(self.text@),
//@@ ENDSIG
//@@ SUB 1 <<<self.offset + self.as_str().text_len()>>> ==> <<<TextSize { raw: self.offset.raw + self.as_str().len() as u32 }>>>
//@@ END

//@@ EXTRACT file=vendored/src/source_location/newlines.rs anchor=<<<pub fn full_range(&self) -> TextRange {>>>
//@@ SIG
    fn full_range(&self) -> (r: TextRange)
        requires line_wf(*self),
        ensures r.start == self.offset, r.end.raw == self.offset.raw + self.text@.len(),
//@@ ENDSIG
//@@ SUB 1 <<<self.text.text_len()>>> ==> <<<TextSize { raw: self.text.len() as u32 }>>>
//@@ END

//@@ EXTRACT file=vendored/src/source_location/newlines.rs anchor=<<<pub fn range(&self) -> TextRange {>>>
//@@ SIG
    fn range(&self) -> (r: TextRange)
        requires line_wf(*self),
        ensures r.start == self.offset, r.end.raw == self.offset.raw + trim_len(self.text@),
//@@ ENDSIG
//@@ END
}

//@@ EXTRACT file=vendored/src/source_location/newlines.rs anchor=<<<pub struct UniversalNewlineIterator<'a> {>>>
//@@ KEEPSIG
//@@ SUB 1 <<<text: &'a str,>>> ==> <<<text: &'a [u8],>>>
//@@ END

//@@ EXTRACT file=vendored/src/source_location/newlines.rs anchor=<<<pub fn find_newline(text: &str) -> Option<(usize, LineEnding)> {>>>
//@@ SIGSUB <<<text: &str>>> ==> <<<text: &[u8]>>>
//@@ SIG
fn find_newline(text: &[u8]) -> (r: Option<(usize, LineEnding)>)
    ensures
        match r {
            // first CR or LF, with its ending kind: CrLf exactly when a LF follows the CR
            Some((p, e)) => p < text@.len() && is_nl(text@[p as int]) && no_nl(text@, 0, p as int)
                && elen(e) == ending_len(text@, p as int)
                && (e is Lf <==> text@[p as int] == 10u8)
                && fl(text@) == p + ending_len(text@, p as int),
            None => no_nl(text@, 0, text@.len() as int) && fl(text@) == text@.len(),
        },
//@@ ENDSIG
//@@ SUB 1 <<<let bytes = text.as_bytes();>>> ==> <<<let bytes = text;>>>
//@@ SUB 1 <<<let newline_character = unsafe { *bytes.get_unchecked(position) };>>> ==> <<<let newline_character = bytes[position]; // R6: get_unchecked -> checked index: the SAFETY comment becomes a proof obligation>>>
//@@ SUB 1 <<<b'\r' if bytes.get(position.saturating_add(1)) == Some(&b'\n') => LineEnding::CrLf,>>> ==> <<<b'\r' if position + 1 < bytes.len() && bytes[position + 1] == b'\n' => LineEnding::CrLf,>>>
//@@ BEFORE 1 <<<Some((position, line_ending))>>>
        proof {
            lemma_fl_at(text@, position as int);
        }
//@@ ENDBEFORE
//@@ BEFORE 1 <<<None>>>
        proof {
            lemma_fl_none(text@);
        }
//@@ ENDBEFORE
//@@ END

impl<'a> UniversalNewlineIterator<'a> {

/// Iterator invariant: while text remains, the two offsets delimit it (once the text is
/// exhausted the offsets are no longer read).
spec fn wf(&self) -> bool {
    self.text@.len() > 0 ==> self.offset.raw + self.text@.len() == self.offset_back.raw
}

//@@ EXTRACT file=vendored/src/source_location/newlines.rs anchor=<<<pub fn with_offset(text: &'a str, offset: TextSize) -> UniversalNewlineIterator<'a> {>>>
//@@ SIGSUB <<<text: &'a str>>> ==> <<<text: &'a [u8]>>>
//@@ SIG
    fn with_offset(text: &'a [u8], offset: TextSize) -> (r: UniversalNewlineIterator<'a>)
        requires offset.raw + text@.len() <= u32::MAX,
        ensures r.wf(), r.text@ == text@, r.offset == offset,
//@@ ENDSIG
//@@ SUB 1 <<<offset_back: offset + text.text_len(),>>> ==> <<<offset_back: TextSize { raw: offset.raw + text.len() as u32 },>>>
//@@ END

//@@ EXTRACT file=vendored/src/source_location/newlines.rs anchor=<<<fn next(&mut self) -> Option<Line<'a>> {>>> nth=1
//@@ SIG
    fn next(&mut self) -> (r: Option<Line<'a>>)
        requires old(self).wf(),
        ensures
            final(self).wf(),
            match r {
                None => old(self).text@.len() == 0 && final(self).text@.len() == 0,
                // the first line, with its ending, at the front offset; the rest remains
                Some(line) => old(self).text@.len() > 0
                    && line.text@ == old(self).text@.take(fl(old(self).text@))
                    && line.offset == old(self).offset
                    && final(self).text@ == old(self).text@.skip(fl(old(self).text@))
                    && (final(self).text@.len() > 0 ==> final(self).offset.raw == old(self).offset.raw + fl(old(self).text@))
                    && final(self).offset_back == old(self).offset_back,
            },
//@@ ENDSIG
//@@ SUB 1 <<<self.offset += text.text_len();>>> ==> <<<self.offset = TextSize { raw: self.offset.raw + text.len() as u32 };>>>
//@@ SUB 1 <<<text: std::mem::take(&mut self.text),>>> ==> <<<text: take_text(&mut self.text),>>>
//@@ AFTER 1 <<<if self.text.is_empty() {>>>
            proof { lemma_fl_bounds(self.text@); }
//@@ ENDAFTER
//@@ BEFORE 1 <<<let line = if let Some((newline_position, line_ending)) = find_newline(self.text) {>>>
        proof { lemma_fl_bounds(self.text@); }
//@@ ENDBEFORE
//@@ END

//@@ EXTRACT file=vendored/src/source_location/newlines.rs anchor=<<<fn next_back(&mut self) -> Option<Self::Item> {>>>
//@@ SIGSUB <<<Self::Item>>> ==> <<<Line<'a>>>>
//@@ SIG
    fn next_back(&mut self) -> (r: Option<Line<'a>>)
        requires old(self).wf(),
        ensures
            final(self).wf(),
            match r {
                None => old(self).text@.len() == 0 && final(self).text@.len() == 0,
                // the last line (a trailing CR LF is one ending), at its absolute offset; the front part remains
                Some(line) => old(self).text@.len() > 0
                    && line.text@ == old(self).text@.skip(old(self).text@.len() - ll(old(self).text@))
                    && line.offset.raw == old(self).offset_back.raw - ll(old(self).text@)
                    && final(self).text@ == old(self).text@.take(old(self).text@.len() - ll(old(self).text@))
                    && (final(self).text@.len() > 0 ==> final(self).offset_back.raw == old(self).offset_back.raw - ll(old(self).text@))
                    && final(self).offset == old(self).offset,
            },
//@@ ENDSIG
//@@ SUB 1 <<<let haystack = match self.text.as_bytes()[len - 1] {>>> ==> <<<let last_byte = self.text[len - 1]; let haystack = match last_byte {>>>
//@@ SUB 1 <<<b'\n' if len > 1 && self.text.as_bytes()[len - 2] == b'\r' => &self.text[..len - 2],>>> ==> <<<b'\n' if len > 1 && self.text[len - 2] == b'\r' => &self.text[..len - 2],>>>
//@@ SUB 1 <<<memrchr2(b'\n', b'\r', haystack.as_bytes())>>> ==> <<<memrchr2(b'\n', b'\r', haystack)>>>
//@@ SUB 1 <<<self.offset_back -= line.text_len();>>> ==> <<<self.offset_back = TextSize { raw: self.offset_back.raw - line.len() as u32 };>>>
//@@ SUB 1 <<<let offset = self.offset_back - self.text.text_len();>>> ==> <<<let offset = TextSize { raw: self.offset_back.raw - self.text.len() as u32 };>>>
//@@ SUB 1 <<<text: std::mem::take(&mut self.text),>>> ==> <<<text: take_text(&mut self.text),>>>
//@@ BEFORE 1 <<<// Find the end of the previous line. The previous line is the text up to, but not including>>>
        proof {
            lemma_ll_back(self.text@);
            assert(haystack@ =~= self.text@.take(trim_len(self.text@)));
            assert(forall|k: int| 0 <= k < haystack@.len() ==> haystack@[k] == self.text@[k]);
        }
//@@ ENDBEFORE
//@@ BEFORE 1 <<<let (remainder, line) = self.text.split_at(line_end + 1);>>>
            proof {
                let b = self.text@;
                let t = trim_len(b);
                assert(haystack@[line_end as int] == b[line_end as int]);
                assert(is_nl(b[line_end as int]));
                assert(no_nl(b, line_end + 1, t)) by {
                    assert forall|k: int| line_end + 1 <= k < t implies !is_nl(#[trigger] b[k]) by {
                        assert(haystack@[k] == b[k]);
                    }
                }
                assert(ll(b) == b.len() - (line_end + 1));
            }
//@@ ENDBEFORE
//@@ BEFORE 1 <<<let offset = TextSize { raw: self.offset_back.raw - self.text.len() as u32 };>>>
            proof {
                let b = self.text@;
                let t = trim_len(b);
                assert(no_nl(b, 0, t)) by {
                    assert forall|k: int| 0 <= k < t implies !is_nl(#[trigger] b[k]) by {
                        assert(haystack@[k] == b[k]);
                    }
                }
                assert(ll(b) == b.len());
            }
//@@ ENDBEFORE
//@@ END

} // impl

// ---------------------------------------------------------------------------------------------
// NewlineWithTrailingNewline: the same lines, plus one empty line when the text ends with a line break.

//@@ EXTRACT file=vendored/src/source_location/newlines.rs anchor=<<<pub struct NewlineWithTrailingNewline<'a> {>>>
//@@ KEEPSIG
//@@ END

/// The empty text (`""`).
#[verifier::external_body]
fn empty_text<'a>() -> (r: &'a [u8])
    ensures r@.len() == 0,
{ &[] }

spec fn ends_with_nl(b: Seq<u8>) -> bool { b.len() > 0 && is_nl(b[b.len() - 1]) }

impl<'a> NewlineWithTrailingNewline<'a> {
//@@ EXTRACT file=vendored/src/source_location/newlines.rs anchor=<<<pub fn with_offset(input: &'a str, offset: TextSize) -> Self {>>>
//@@ SIGSUB <<<input: &'a str>>> ==> <<<input: &'a [u8]>>>
//@@ SIG
    fn with_offset(input: &'a [u8], offset: TextSize) -> (r: Self)
        requires offset.raw + input@.len() <= u32::MAX,
        ensures
            r.underlying.wf(), r.underlying.text@ == input@, r.underlying.offset == offset,
            // one extra EMPTY line, placed at the end of the text, exactly when the text ends with CR or LF
            match r.trailing {
                Some(l) => ends_with_nl(input@) && l.text@.len() == 0 && l.offset.raw == offset.raw + input@.len(),
                None => !ends_with_nl(input@),
            },
//@@ ENDSIG
//@@ SUB 1 <<<trailing: if input.ends_with(['\r', '\n']) {>>> ==> <<<trailing: if input.len() > 0 && (input[input.len() - 1] == b'\r' || input[input.len() - 1] == b'\n') {>>>
//@@ SUB 1 <<<text: "",>>> ==> <<<text: empty_text(),>>>
//@@ SUB 1 <<<offset: offset + input.text_len(),>>> ==> <<<offset: TextSize { raw: offset.raw + input.len() as u32 },>>>
//@@ END

//@@ EXTRACT file=vendored/src/source_location/newlines.rs anchor=<<<fn next(&mut self) -> Option<Line<'a>> {>>> nth=2
//@@ SIG
    fn next(&mut self) -> (r: Option<Line<'a>>)
        requires old(self).underlying.wf(),
        ensures
            final(self).underlying.wf(),
            // while the text lasts: the underlying iterator's line, the extra line untouched
            old(self).underlying.text@.len() > 0 ==> final(self).trailing == old(self).trailing
                && r.is_some() && r.unwrap().text@ == old(self).underlying.text@.take(fl(old(self).underlying.text@))
                && r.unwrap().offset == old(self).underlying.offset
                && final(self).underlying.text@ == old(self).underlying.text@.skip(fl(old(self).underlying.text@)),
            // afterwards: the extra line exactly once, then nothing
            old(self).underlying.text@.len() == 0 ==> r == old(self).trailing && final(self).trailing.is_none()
                && final(self).underlying.text@.len() == 0,
//@@ ENDSIG
//@@ SUB 1 <<<self.underlying.next().or_else(|| self.trailing.take())>>> ==> <<<match self.underlying.next() { Some(l) => Some(l), None => self.trailing.take() }>>>
//@@ END
}

} // verus!
fn main() {}
