#!/usr/bin/env python3
"""C16 bounded stand-in: the repr of every one-character string (every Unicode scalar value), alone and after
' " '" a \\, and of every one-byte byte string in the same contexts: it evaluates back to the original value in the
installed CPython, uses Python's quote choice, its body has the announced length, and it is identical to Python's
repr for all byte strings and for ASCII / Latin-1 text."""
import json, os, sys

CTX = ["", "'", '"', "'\"", "a", "\\"]


def prepare(d):
    pass


def judge(d):
    n = 0
    bad = []
    count = 0

    def mismatch(inp, exp, got):
        nonlocal count
        count += 1
        if len(bad) < 25:
            bad.append({"input": inp, "expected": exp, "got": got})
    with open(os.path.join(d, "out.txt"), encoding="utf-8", errors="surrogateescape") as f:
        for line in f:
            kind, cp, k, announced, text = line.rstrip("\n").split("\t", 4)
            cp = int(cp, 16)
            k = int(k)
            text = text.replace("<NL>", "\n").replace("<CR>", "\r")
            n += 1
            if kind == 's':
                value = CTX[k] + chr(cp)
                ref = repr(value)
            else:
                value = CTX[k].encode() + bytes([cp])
                ref = repr(value)
            what = "repr(%a)" % (value,)
            if text == "PANIC":
                mismatch(what, ref, "panic")
                continue
            try:
                back = eval(text if kind == 's' else text, {"__builtins__": {}})
            except Exception as e:
                mismatch(what, "a valid literal", "%s (%s)" % (text, type(e).__name__))
                continue
            if back != value or type(back) is not type(value):
                mismatch(what, "a literal that evaluates to the value", text)
                continue
            body = text[2:-1] if kind == 'b' else text[1:-1]
            if int(announced) != len(body.encode('utf-8')):
                mismatch(what, "announced body length %d" % len(body.encode('utf-8')), announced)
                continue
            if text[1 if kind == 'b' else 0] != ref[1 if kind == 'b' else 0]:
                mismatch(what, "quote " + ref[1 if kind == 'b' else 0], text)
                continue
            # identical text: all byte strings, ASCII and Latin-1 (the printable status of other code points may depend
            # on the Unicode version of the tables)
            if (kind == 'b' or cp < 0x100) and text != ref:
                mismatch(what, ref, text)
    print(json.dumps({"evaluated": n, "mismatches": bad, "mismatch_count": count}))


if __name__ == "__main__":
    {"prepare": prepare, "judge": judge}[sys.argv[1]](sys.argv[2])
