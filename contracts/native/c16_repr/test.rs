// C16 bounded stand-in (native enumeration): see driver.py.
use rustpython_literal::escape::{AsciiEscape, Escape, UnicodeEscape};
use std::io::Write;
fn srepr(s: &str) -> String {
    let e = UnicodeEscape::new_repr(s);
    let text = e.str_repr().to_string().unwrap();
    // the announced layout length must be the length of the body actually written
    let announced = e.layout().len;
    format!("{}\t{}", announced.map(|n| n as i64).unwrap_or(-1), text.replace('\n', "<NL>").replace('\r', "<CR>"))
}
fn brepr(b: &[u8]) -> String {
    let e = AsciiEscape::new_repr(b);
    let text = e.bytes_repr().to_string().unwrap();
    let announced = e.layout().len;
    format!("{}\t{}", announced.map(|n| n as i64).unwrap_or(-1), text.replace('\n', "<NL>").replace('\r', "<CR>"))
}
#[test]
fn enumerate() {
    std::panic::set_hook(Box::new(|_| {}));
    let dir = std::env::var("VERIF_NATIVE_DIR").unwrap();
    let mut f = std::io::BufWriter::new(std::fs::File::create(format!("{dir}/out.txt")).unwrap());
    let ctx: [&str; 6] = ["", "'", "\"", "'\"", "a", "\\"];
    for cp in 0u32..0x110000 {
        if let Some(c) = char::from_u32(cp) {
            for (k, pre) in ctx.iter().enumerate() {
                if cp > 0x3000 && k > 1 {
                    continue;
                }
                let s = format!("{pre}{c}");
                let r = std::panic::catch_unwind(|| srepr(&s)).unwrap_or("-2\tPANIC".to_string());
                writeln!(f, "s\t{:x}\t{}\t{}", cp, k, r).unwrap();
            }
        }
    }
    for b in 0u32..256 {
        for (k, pre) in ctx.iter().enumerate() {
            let mut v = pre.as_bytes().to_vec();
            v.push(b as u8);
            let r = std::panic::catch_unwind(|| brepr(&v)).unwrap_or("-2\tPANIC".to_string());
            writeln!(f, "b\t{:x}\t{}\t{}", b, k, r).unwrap();
        }
    }
}
