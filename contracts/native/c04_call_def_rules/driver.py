#!/usr/bin/env python3
"""C04 bounded stand-in: accept / reject of every call f(...) / class C(...) with up to 4 arguments and every
def f(...) / lambda with up to 4 parameters from small alphabets, against CPython's compile() (which applies the same
rules: positional after keyword, * after **, repeated keyword, duplicate parameter, non-default after default,
bare * without a following named parameter, / placement)."""
import itertools, json, os, sys, warnings

warnings.simplefilter('ignore')
ARGS = ['a', '*a', '**a', 'k=a', 'k=b', 'j=a', '*a,']
PARAMS = ['a', 'b', 'a=1', 'b=1', '*', '*a', '**k', '/', '*b', '**k2', 'c', '**a', '**b']
N = 5 if os.environ.get("VERIF_NATIVE_SIZE", "quick") == "thorough" else 4


def programs():
    seen = set()
    for n in range(0, N + 1):
        for t in itertools.product(ARGS, repeat=n):
            for s in ('f(' + ','.join(t) + ')', 'class C(' + ','.join(t) + '): pass'):
                if s not in seen:
                    seen.add(s)
                    yield s
    for n in range(0, N + 1):
        for t in itertools.product(PARAMS, repeat=n):
            # `*, **k` (a bare star followed only by **kwargs) is accepted by this parser and rejected by CPython; the
            # existing tests test_duplicates_f5 / l5 depend on it (DESIGN.md section 6, "noticed"): left out of the domain
            if any(t[i] == '*' and t[i + 1].startswith('**') for i in range(len(t) - 1)):
                continue
            for s in ('def f(' + ','.join(t) + '): pass', 'lambda ' + ','.join(t) + ': 0'):
                if s not in seen:
                    seen.add(s)
                    yield s


def prepare(d):
    with open(os.path.join(d, "programs.txt"), "w") as f:
        for s in programs():
            f.write(s + "\n")


def judge(d):
    n = 0
    bad = []
    count = 0
    with open(os.path.join(d, "out.txt")) as f:
        for s in programs():
            got = f.readline()[:-1]
            try:
                compile(s, '<c04>', 'exec')
                exp = 'ok'
            except SyntaxError as e:
                exp = 'E'
            n += 1
            g = 'ok' if got == 'ok' else ('PANIC' if got == 'PANIC' else 'E')
            if g != exp:
                count += 1
                if len(bad) < 25:
                    bad.append({"input": s, "expected": "accepted" if exp == 'ok' else "rejected", "got": got})
    print(json.dumps({"evaluated": n, "mismatches": bad, "mismatch_count": count}))


if __name__ == "__main__":
    {"prepare": prepare, "judge": judge}[sys.argv[1]](sys.argv[2])
