// C04 bounded stand-in (native enumeration): see driver.py.
use rustpython_parser::{parse, Mode};
use std::io::{BufRead, Write};
#[test]
fn enumerate() {
    std::panic::set_hook(Box::new(|_| {}));
    let dir = std::env::var("VERIF_NATIVE_DIR").unwrap();
    let progs = std::io::BufReader::new(std::fs::File::open(format!("{dir}/programs.txt")).unwrap());
    let mut out = std::io::BufWriter::new(std::fs::File::create(format!("{dir}/out.txt")).unwrap());
    for line in progs.lines() {
        let src = line.unwrap();
        let r = std::panic::catch_unwind(|| match parse(&src, Mode::Module, "<c04>") {
            Ok(_) => "ok".to_string(),
            Err(e) => format!("E {:?}", e.error).replace('\n', " ").chars().take(80).collect(),
        })
        .unwrap_or("PANIC".to_string());
        writeln!(out, "{}", r).unwrap();
    }
}
