#!/usr/bin/env python3
"""C19 bounded stand-in: CFormatSpec::from_str + format_number / format_float / format_char / format_string /
format_bytes for every subset of the flags x width x precision x conversion type, against CPython's % operator."""
import itertools, json, os, sys

FLAGSETS = [''.join(f) for n in range(0, 6) for f in itertools.combinations('-+ #0', n)] + ['0-', '-0', '+ ', ' +', '##', '00']
WIDTHS = ['', '1', '6', '12']
PRECS = ['', '.', '.0', '.2', '.10']
TYPES = 'diuoxXeEfFgGcs'
INTS = [0, 1, -1, 7, -42, 255, 1234567, -1234567, 10**20, -(10**20)]
FLOATS = [0.0, -0.0, 1.0, -1.5, 1234.5678, -1234567.891, 1e10, 1.5e-7, float('inf'), float('-inf'), float('nan'), 123456789.123, 0.1, 1e16, 2.5, 0.5, 1e-5, 100.0]
STRS = ['', 'a', 'abc', 'é', 'héllo wörld']
CHARS = ['a', 'é', '😀']
BYS = [b'', b'a', b'abc', b'hello world']


def specs():
    for fl, w, p, t in itertools.product(FLAGSETS, WIDTHS, PRECS, TYPES):
        yield '%' + fl + w + p + t


def values(t):
    if t in 'diuoxX':
        return [('i', v) for v in INTS]
    if t in 'eEfFgG':
        return [('f', v) for v in FLOATS]
    if t == 'c':
        return [('c', v) for v in CHARS]
    return [('s', v) for v in STRS] + [('b', v) for v in BYS]


def prepare(d):
    with open(os.path.join(d, "specs.txt"), "w") as f:
        for s in specs():
            f.write(s + "\n")


def judge(d):
    n = 0
    bad = []
    count = 0
    with open(os.path.join(d, "out.txt"), encoding="utf-8", errors="surrogateescape") as f:
        for spec in specs():
            for kind, v in values(spec[-1]):
                got = f.readline()[:-1]
                try:
                    exp = (spec.encode() % v).decode('latin-1') if kind == 'b' else spec % v
                except (ValueError, OverflowError, TypeError):
                    exp = "\x00E"
                n += 1
                if got != exp:
                    count += 1
                    if len(bad) < 25:
                        bad.append({"input": "%r %% %r" % (spec, v), "expected": exp.replace("\x00E", "<error>"), "got": got.replace("\x00E", "<error>").replace("\x00PANIC", "<panic>")})
    print(json.dumps({"evaluated": n, "mismatches": bad, "mismatch_count": count}))


if __name__ == "__main__":
    {"prepare": prepare, "judge": judge}[sys.argv[1]](sys.argv[2])
