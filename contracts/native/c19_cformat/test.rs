// C19 bounded stand-in (native enumeration): see driver.py.
use malachite_bigint::BigInt;
use rustpython_format::cformat::*;
use std::io::{BufRead, Write};
use std::str::FromStr;
#[test]
fn enumerate() {
    std::panic::set_hook(Box::new(|_| {}));
    let dir = std::env::var("VERIF_NATIVE_DIR").unwrap();
    let specs = std::io::BufReader::new(std::fs::File::open(format!("{dir}/specs.txt")).unwrap());
    let mut out = std::io::BufWriter::new(std::fs::File::create(format!("{dir}/out.txt")).unwrap());
    let ints: Vec<BigInt> = ["0", "1", "-1", "7", "-42", "255", "1234567", "-1234567", "100000000000000000000", "-100000000000000000000"].iter().map(|s| s.parse().unwrap()).collect();
    let floats = [0.0, -0.0, 1.0, -1.5, 1234.5678, -1234567.891, 1e10, 1.5e-7, f64::INFINITY, f64::NEG_INFINITY, f64::NAN, 123456789.123, 0.1, 1e16, 2.5, 0.5, 1e-5, 100.0];
    let strs = ["", "a", "abc", "é", "héllo wörld"];
    let chars = ['a', 'é', '😀'];
    let bys: [&[u8]; 4] = [b"", b"a", b"abc", b"hello world"];
    for line in specs.lines() {
        let spec = line.unwrap();
        let t = spec.chars().last().unwrap();
        let parsed = CFormatSpec::from_str(&spec);
        let mut emit = |r: Option<String>| {
            writeln!(out, "{}", r.unwrap_or("\u{0}E".to_string())).unwrap();
        };
        let guard = |f: &dyn Fn() -> String| -> Option<String> { Some(std::panic::catch_unwind(std::panic::AssertUnwindSafe(|| f())).unwrap_or("\u{0}PANIC".to_string())) };
        match t {
            'd' | 'i' | 'u' | 'o' | 'x' | 'X' => {
                for k in 0..ints.len() {
                    emit(parsed.as_ref().ok().and_then(|p| guard(&|| p.format_number(&ints[k]))));
                }
            }
            'e' | 'E' | 'f' | 'F' | 'g' | 'G' => {
                for k in 0..floats.len() {
                    emit(parsed.as_ref().ok().and_then(|p| guard(&|| p.format_float(floats[k]))));
                }
            }
            'c' => {
                for k in 0..chars.len() {
                    emit(parsed.as_ref().ok().and_then(|p| guard(&|| p.format_char(chars[k]))));
                }
            }
            _ => {
                for k in 0..strs.len() {
                    emit(parsed.as_ref().ok().and_then(|p| guard(&|| p.format_string(strs[k].to_string()))));
                }
                for k in 0..bys.len() {
                    emit(parsed.as_ref().ok().and_then(|p| guard(&|| p.format_bytes(bys[k]).iter().map(|&b| b as char).collect::<String>())));
                }
            }
        }
    }
}
