// C05 / C03 bounded stand-in (native enumeration): every input of up to N characters over a 24-character alphabet,
// in the three modes: lexing and parsing never panic, error offsets lie in the input on a character boundary, and
// for inputs that lex without error the token stream tiles the source (see driver.py for the clause).
use rustpython_parser::lexer::lex;
use rustpython_parser::{parse, Mode, Tok};
use std::io::Write;

fn gap_ok(s: &str) -> bool {
    // only whitespace, comments and backslash-newline joins between tokens
    let b = s.as_bytes();
    let mut i = 0;
    while i < b.len() {
        match b[i] {
            b' ' | b'\t' | 0x0c | b'\n' | b'\r' => i += 1,
            b'#' => {
                while i < b.len() && b[i] != b'\n' && b[i] != b'\r' {
                    i += 1;
                }
            }
            b'\\' => {
                if i + 1 < b.len() && (b[i + 1] == b'\n' || b[i + 1] == b'\r') {
                    i += 2;
                    if b[i - 1] == b'\r' && i < b.len() && b[i] == b'\n' {
                        i += 1;
                    }
                } else {
                    return false;
                }
            }
            _ => return false,
        }
    }
    true
}

fn spelling(tok: &Tok) -> Option<&'static str> {
    Some(match tok {
        Tok::Lpar => "(", Tok::Rpar => ")", Tok::Lsqb => "[", Tok::Rsqb => "]", Tok::Lbrace => "{", Tok::Rbrace => "}",
        Tok::Colon => ":", Tok::Comma => ",", Tok::Semi => ";", Tok::Plus => "+", Tok::Minus => "-", Tok::Star => "*", Tok::Slash => "/",
        Tok::Vbar => "|", Tok::Amper => "&", Tok::Less => "<", Tok::Greater => ">", Tok::Equal => "=", Tok::Dot => ".", Tok::Percent => "%",
        Tok::EqEqual => "==", Tok::NotEqual => "!=", Tok::LessEqual => "<=", Tok::GreaterEqual => ">=", Tok::Tilde => "~", Tok::CircumFlex => "^",
        Tok::LeftShift => "<<", Tok::RightShift => ">>", Tok::DoubleStar => "**", Tok::DoubleStarEqual => "**=", Tok::PlusEqual => "+=",
        Tok::MinusEqual => "-=", Tok::StarEqual => "*=", Tok::SlashEqual => "/=", Tok::PercentEqual => "%=", Tok::AmperEqual => "&=",
        Tok::VbarEqual => "|=", Tok::CircumflexEqual => "^=", Tok::LeftShiftEqual => "<<=", Tok::RightShiftEqual => ">>=", Tok::DoubleSlash => "//",
        Tok::DoubleSlashEqual => "//=", Tok::ColonEqual => ":=", Tok::At => "@", Tok::AtEqual => "@=", Tok::Rarrow => "->", Tok::Ellipsis => "...",
        _ => return None,
    })
}

fn check(src: &str, out: &mut impl Write) {
    for (mname, mode) in [("module", Mode::Module), ("interactive", Mode::Interactive), ("expression", Mode::Expression)] {
        let r = std::panic::catch_unwind(|| {
            let mut problems: Vec<String> = vec![];
            let mut toks = vec![];
            let mut err = None;
            for t in lex(src, mode) {
                match t {
                    Ok(x) => toks.push(x),
                    Err(e) => {
                        err = Some(e);
                        break;
                    }
                }
            }
            if let Some(e) = &err {
                let off = usize::from(e.location);
                if off > src.len() || !src.is_char_boundary(off) {
                    problems.push(format!("lexical error offset {} outside the input or inside a character", off));
                }
            } else {
                let mut pos = 0usize;
                let mut depth: i32 = 0;
                let mut indents: i32 = 0;
                for (tok, range) in &toks {
                    let (s, e) = (usize::from(range.start()), usize::from(range.end()));
                    if e > src.len() || s > e || !src.is_char_boundary(s) || !src.is_char_boundary(e) {
                        problems.push(format!("range {}..{} of {:?} outside the input or inside a character", s, e, tok));
                        continue;
                    }
                    if s < pos {
                        problems.push(format!("{:?} at {}..{} overlaps or precedes the previous token (end {})", tok, s, e, pos));
                        continue;
                    }
                    if !gap_ok(&src[pos..s]) {
                        problems.push(format!("text {:?} before {:?} is dropped", &src[pos..s], tok));
                    }
                    match tok {
                        Tok::Lpar | Tok::Lsqb | Tok::Lbrace => depth += 1,
                        Tok::Rpar | Tok::Rsqb | Tok::Rbrace => depth -= 1,
                        Tok::Newline => {
                            if depth > 0 {
                                problems.push("NEWLINE inside brackets".into())
                            }
                        }
                        Tok::Indent => indents += 1,
                        Tok::Dedent => indents -= 1,
                        Tok::Name { name } => {
                            if &src[s..e] != name.as_str() {
                                problems.push(format!("name {:?} is not its text {:?}", name, &src[s..e]))
                            }
                        }
                        _ => {}
                    }
                    if let Some(sp) = spelling(tok) {
                        if &src[s..e] != sp {
                            problems.push(format!("{:?} covers {:?}, not its spelling", tok, &src[s..e]));
                        }
                    }
                    if indents < 0 {
                        problems.push("DEDENT without INDENT".into());
                    }
                    pos = e;
                }
                for (k, (tok, _)) in toks.iter().enumerate() {
                    if matches!(tok, Tok::Indent) {
                        // an INDENT opens a logical line: a token of that line follows it (its NEWLINE at least - a line that
                        // holds only a backslash continuation is such a line, for CPython's tokenizer too)
                        let next_ok = toks.get(k + 1).map_or(false, |(t, _)| !matches!(t, Tok::Dedent | Tok::Indent | Tok::EndOfFile));
                        if !next_ok {
                            problems.push(format!("INDENT (token {}) is not at the start of a logical line", k));
                        }
                    }
                }
                if indents != 0 {
                    problems.push(format!("INDENT / DEDENT unbalanced at end of input: {}", indents));
                }
                if !gap_ok(&src[pos..]) {
                    problems.push(format!("trailing text {:?} is dropped", &src[pos..]));
                }
            }
            if let Err(e) = parse(src, mode, "<t>") {
                let off = usize::from(e.offset);
                if off > src.len() || !src.is_char_boundary(off) {
                    problems.push(format!("parse error offset {} outside the input or inside a character ({:?})", off, e.error));
                }
            }
            problems
        });
        match r {
            Ok(p) => {
                for x in p {
                    writeln!(out, "{:?}\t{}\t{}", src, mname, x).unwrap();
                }
            }
            Err(_) => writeln!(out, "{:?}\t{}\tpanic", src, mname).unwrap(),
        }
    }
}

fn unhex(hex: &str) -> String {
    let bytes: Vec<u8> = (0..hex.len() / 2).map(|i| u8::from_str_radix(&hex[2 * i..2 * i + 2], 16).unwrap()).collect();
    String::from_utf8(bytes).unwrap()
}

#[test]
fn enumerate() {
    std::panic::set_hook(Box::new(|_| {}));
    let dir = std::env::var("VERIF_NATIVE_DIR").unwrap();
    let mut out = std::io::BufWriter::new(std::fs::File::create(format!("{dir}/problems.txt")).unwrap());
    let mut n = 0u64;
    // one domain per line: prefix, suffix, alphabet (hex of UTF-8), maximal number of alphabet characters
    for line in std::fs::read_to_string(format!("{dir}/domains.txt")).unwrap().lines() {
        let f: Vec<&str> = line.split('\t').collect();
        let (prefix, suffix) = (unhex(f[0]), unhex(f[1]));
        // the alphabet is a list of strings (single characters or whole tokens) separated by U+001F
        let alpha_text = unhex(f[2]);
        let alpha: Vec<&str> = alpha_text.split('\u{1f}').collect();
        let maxlen: usize = f[3].parse().unwrap();
        let mut idx: Vec<usize> = vec![];
        loop {
            let mut s = prefix.clone();
            for &i in &idx {
                s.push_str(alpha[i]);
            }
            s.push_str(&suffix);
            check(&s, &mut out);
            n += 1;
            let mut k = idx.len();
            loop {
                if k == 0 {
                    idx = vec![0; idx.len() + 1];
                    break;
                }
                k -= 1;
                if idx[k] + 1 < alpha.len() {
                    idx[k] += 1;
                    for j in k + 1..idx.len() {
                        idx[j] = 0;
                    }
                    break;
                }
            }
            if idx.len() > maxlen {
                break;
            }
        }
    }
    std::fs::write(format!("{dir}/count.txt"), format!("{}", n * 3)).unwrap();
}
