#!/usr/bin/env python3
"""C05 / C03 bounded stand-in: the executable postconditions are evaluated by test.rs itself (they need no outside
reference); this driver only fixes the domain and collects the violations."""
import json, os, sys

THOROUGH = os.environ.get("VERIF_NATIVE_SIZE", "quick") == "thorough"
# (prefix, suffix, alphabet: a string of single characters or a list of tokens, maximal number of alphabet items)
DOMAINS = [
    ("", "", "a1 \n\t#\\'\"([:.=-<!e_é\r}0x", 5 if THOROUGH else 4),
    # f-strings (their own scanner and error positions): f"<body>"
    ('f"', '"', "{}éa!:'\\=x ", 6 if THOROUGH else 5),
    ("rf\'\'\'", "\'\'\'", "{}é\n\\'a", 5 if THOROUGH else 4),
    # token level: soft keywords (their look-ahead counts brackets on its own), brackets, assignment
    ("", "\n", ["type ", "match ", "case ", "x", "_", "[", "]", "(", ")", "{", "=", ":", "\n", "    "], 6 if THOROUGH else 5),
    ("type X", " = int\n", ["[", "]", "(", ")", "{", "}", "T", ","], 7 if THOROUGH else 6),
]


def prepare(d):
    with open(os.path.join(d, "domains.txt"), "w") as f:
        for p, s, a, n in DOMAINS:
            items = list(a)
            f.write("%s\t%s\t%s\t%d\n" % (p.encode().hex(), s.encode().hex(), "\x1f".join(items).encode().hex(), n))


def judge(d):
    n = int(open(os.path.join(d, "count.txt")).read())
    bad = []
    count = 0
    with open(os.path.join(d, "problems.txt"), encoding="utf-8", errors="replace") as f:
        for line in f:
            count += 1
            if len(bad) < 25:
                src, mode, what = line.rstrip("\n").split("\t", 2)
                bad.append({"input": "%s (mode %s)" % (src, mode), "expected": "the clause holds", "got": what})
    print(json.dumps({"evaluated": n, "mismatches": bad, "mismatch_count": count}))


if __name__ == "__main__":
    {"prepare": prepare, "judge": judge}[sys.argv[1]](sys.argv[2])
