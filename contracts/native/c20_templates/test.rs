// C20 bounded stand-in (native enumeration): see driver.py.
use rustpython_format::{FieldName, FieldNamePart, FieldType, FormatPart, FormatString, FromTemplate};
use std::io::{BufRead, Write};
fn template(s: &str) -> String {
    match FormatString::from_str(s) {
        Err(_) => "E".to_string(),
        Ok(f) => {
            let mut out = String::new();
            let mut lit = String::new();
            for p in f.format_parts {
                match p {
                    FormatPart::Literal(t) => lit.push_str(&t),
                    FormatPart::Field { field_name, conversion_spec, format_spec } => {
                        if !lit.is_empty() {
                            out.push_str(&format!("L({})", lit));
                            lit.clear();
                        }
                        out.push_str(&format!("F({}|{}|{})", field_name, conversion_spec.map(|c| c.to_string()).unwrap_or("-".into()), format_spec));
                    }
                }
            }
            if !lit.is_empty() {
                out.push_str(&format!("L({})", lit));
            }
            out
        }
    }
}
fn name(s: &str) -> String {
    match FieldName::parse(s) {
        Err(_) => "E".to_string(),
        Ok(f) => {
            let head = match f.field_type {
                FieldType::Auto => "auto".to_string(),
                FieldType::Index(i) => format!("index:{i}"),
                FieldType::Keyword(k) => format!("kw:{k}"),
            };
            let parts: Vec<String> = f
                .parts
                .iter()
                .map(|p| match p {
                    FieldNamePart::Attribute(a) => format!("attr:{a}"),
                    FieldNamePart::Index(i) => format!("idx:{i}"),
                    FieldNamePart::StringIndex(a) => format!("sidx:{a}"),
                })
                .collect();
            format!("{};{}", head, parts.join(","))
        }
    }
}
#[test]
fn enumerate() {
    std::panic::set_hook(Box::new(|_| {}));
    let dir = std::env::var("VERIF_NATIVE_DIR").unwrap();
    for (input, output, f) in [("templates.txt", "out_templates.txt", template as fn(&str) -> String), ("names.txt", "out_names.txt", name as fn(&str) -> String)] {
        let lines = std::io::BufReader::new(std::fs::File::open(format!("{dir}/{input}")).unwrap());
        let mut out = std::io::BufWriter::new(std::fs::File::create(format!("{dir}/{output}")).unwrap());
        for line in lines.lines() {
            let s = line.unwrap();
            let r = std::panic::catch_unwind(|| f(&s)).unwrap_or("PANIC".to_string());
            writeln!(out, "{}", r).unwrap();
        }
    }
}
