#!/usr/bin/env python3
"""C20 bounded stand-in: FormatString::from_str on every template of up to 6 characters over { } [ ] ! : . a 0 (and
over { } [ ] ! : r é), and FieldName::parse on every field name of up to 6 characters over . [ ] 0 a + é, against
CPython's own splitters (_string.formatter_parser, _string.formatter_field_name_split)."""
import _string, itertools, json, os, re, sys

ALPHAS = ["{}[]!:.a0", "{}[]!:ré"]
FN_ALPHA = ".[]0a+é"
MAXLEN = 6 if os.environ.get("VERIF_NATIVE_SIZE", "quick") == "thorough" else 5


def templates():
    seen = set()
    for alpha in ALPHAS:
        for n in range(0, MAXLEN + 1):
            for t in itertools.product(alpha, repeat=n):
                s = "".join(t)
                if s not in seen:
                    seen.add(s)
                    yield s


def names():
    for n in range(0, MAXLEN + 1):
        for t in itertools.product(FN_ALPHA, repeat=n):
            yield "".join(t)


def py_template(s):
    try:
        parts = list(_string.formatter_parser(s))
    except ValueError:
        return "E"
    o = ""
    lit = ""
    for l, n, sp, c in parts:
        lit += l
        if n is not None:
            if lit:
                o += "L(%s)" % lit
                lit = ""
            o += "F(%s|%s|%s)" % (n, c if c is not None else "-", sp)
    if lit:
        o += "L(%s)" % lit
    return o


def py_name(s):
    try:
        first, rest = _string.formatter_field_name_split(s)
        rest = list(rest)
    except ValueError:
        return "E"
    if s == "":
        return "auto;"   # the empty field name: automatic numbering, no accessors
    head = "auto" if first == "" else ("index:%d" % first if isinstance(first, int) else "kw:" + first)
    return head + ";" + ",".join(("attr:" + k) if a else (("idx:%d" % k) if isinstance(k, int) else "sidx:" + k) for a, k in rest)


# Python's template *parser* takes any character after '!' as the conversion and rejects an unknown one only when the
# field is formatted ("Unknown conversion specifier"); the Rust splitter rejects ':', '[', ']', '{', '}' at once.
# Both reject the template: not a difference.
BADCONV = re.compile(r"F\([^|]*\|[:\[\]{}]\|")


def prepare(d):
    with open(os.path.join(d, "templates.txt"), "w") as f:
        for s in templates():
            f.write(s + "\n")
    with open(os.path.join(d, "names.txt"), "w") as f:
        for s in names():
            f.write(s + "\n")


def judge(d):
    n = 0
    bad = []
    count = 0
    for fname, gen, ref, what in (("out_templates.txt", templates, py_template, "template"), ("out_names.txt", names, py_name, "field name")):
        with open(os.path.join(d, fname), encoding="utf-8") as f:
            for s in gen():
                got = f.readline()[:-1]
                exp = ref(s)
                n += 1
                if got == exp:
                    continue
                if what == "template" and ((got == "E" and BADCONV.search(exp)) or (exp == "E" and BADCONV.search(got))):
                    continue
                count += 1
                if len(bad) < 25:
                    bad.append({"input": "%s %r" % (what, s), "expected": exp, "got": got})
    print(json.dumps({"evaluated": n, "mismatches": bad, "mismatch_count": count}))


if __name__ == "__main__":
    {"prepare": prepare, "judge": judge}[sys.argv[1]](sys.argv[2])
