#!/usr/bin/env python3
"""C18 bounded stand-in: FormatSpec::parse + format_int / format_string / format_bool / format_float on a product of
the spec fields x a fixed list of values, against CPython's format(value, spec) computed here."""
import itertools, json, os, sys

SIZE = os.environ.get("VERIF_NATIVE_SIZE", "quick")
FILLS = ['', '*', '0', 'é']
ALIGNS = ['', '<', '>', '=', '^']
SIGNS = ['', '+', '-', ' ']
ALTS = ['', '#']
ZEROS = ['', '0']
WIDTHS = ['', '1', '6', '12'] if SIZE == "quick" else ['', '1', '3', '6', '7', '8', '9', '10', '12', '20']
GROUPS = ['', ',', '_']
PRECS = ['', '.0', '.2', '.10'] if SIZE == "quick" else ['', '.0', '.1', '.2', '.3', '.6', '.10', '.17']
TYPES = ['', 'b', 'c', 'd', 'o', 'x', 'X', 'n', 'e', 'E', 'f', 'F', 'g', 'G', '%', 's']
INTS = [0, 1, -1, 7, -42, 255, 1234567, -1234567, 10**20, -(10**20), 65, 0x1F600, 1000, 999999, 0x110000, 0xD800, 0xDFFF]
STRS = ['', 'a', 'abc', 'é', 'héllo wörld', '日本語']
BOOLS = [True, False]
FLOATS = [0.0, -0.0, 1.0, -1.5, 1234.5678, -1234567.891, 1e10, 1.5e-7, float('inf'), float('-inf'), float('nan'),
          123456789.123, 0.1, 1e16, 2.5, 0.5, 1e-5, 100.0, 0.125, 2.675, 1e22, 999999.9, 5e-324, 9.5, 1e-4]


def specs():
    for fi, al, si, a, z, w, g, p, t in itertools.product(FILLS, ALIGNS, SIGNS, ALTS, ZEROS, WIDTHS, GROUPS, PRECS, TYPES):
        if fi and not al:
            continue
        yield fi + al + si + a + z + w + g + p + t


def fl(v):
    return repr(v) if v == v and v not in (float('inf'), float('-inf')) else {float('inf'): 'inf', float('-inf'): '-inf'}.get(v, 'nan')


def prepare(d):
    with open(os.path.join(d, "specs.txt"), "w") as f:
        for s in specs():
            f.write(s + "\n")
    with open(os.path.join(d, "values.txt"), "w") as f:
        f.write("i\t" + "\t".join(str(v) for v in INTS) + "\n")
        f.write("f\t" + "\t".join(fl(v) for v in FLOATS) + "\n")


def judge(d):
    n = 0
    bad = []
    count = 0
    for kind, vals in (("i", INTS), ("s", STRS), ("b", BOOLS), ("f", FLOATS)):
        with open(os.path.join(d, "out_%s.txt" % kind), encoding="utf-8", errors="surrogateescape") as f:
            for spec in specs():
                for k, v in enumerate(vals):
                    line = f.readline()
                    if not line:
                        raise SystemExit("output of kind %s is short" % kind)
                    got = line[:-1]
                    try:
                        exp = format(v, spec)
                    except (ValueError, OverflowError, TypeError):
                        exp = "\x00E"
                    if any(0xD800 <= ord(ch) <= 0xDFFF for ch in exp):
                        # format(0xD800, 'c') is a lone surrogate in Python; a Rust string cannot hold one: an error (not
                        # a panic) is the required outcome
                        exp = "\x00E"
                    n += 1
                    if got != exp:
                        count += 1
                        if len(bad) < 25:
                            bad.append({"input": "format(%r, %r)" % (v, spec), "expected": exp.replace("\x00E", "<error>"), "got": got.replace("\x00E", "<error>").replace("\x00PANIC", "<panic>")})
    print(json.dumps({"evaluated": n, "mismatches": bad, "mismatch_count": count}))


if __name__ == "__main__":
    {"prepare": prepare, "judge": judge}[sys.argv[1]](sys.argv[2])
