// C18 bounded stand-in (native enumeration): see driver.py.  Every (spec, value) pair is formatted by the real
// code; panics are caught and reported as a result.
use malachite_bigint::BigInt;
use rustpython_format::{CharLen, FormatSpec};
use std::io::{BufRead, Write};
use std::ops::Deref;
struct S(String);
impl CharLen for S {
    fn char_len(&self) -> usize {
        self.0.chars().count()
    }
}
impl Deref for S {
    type Target = str;
    fn deref(&self) -> &str {
        &self.0
    }
}
fn run(which: &str, ints: &[BigInt], floats: &[f64]) {
    let dir = std::env::var("VERIF_NATIVE_DIR").unwrap();
    let specs = std::io::BufReader::new(std::fs::File::open(format!("{dir}/specs.txt")).unwrap());
    let mut out = std::io::BufWriter::new(std::fs::File::create(format!("{dir}/out_{which}.txt")).unwrap());
    let strs = ["", "a", "abc", "é", "héllo wörld", "日本語"];
    let bools = [true, false];
    for line in specs.lines() {
        let spec = line.unwrap();
        let parsed = FormatSpec::parse(&spec);
        let n = match which {
            "i" => ints.len(),
            "s" => strs.len(),
            "b" => bools.len(),
            _ => floats.len(),
        };
        for k in 0..n {
            let r = match &parsed {
                Err(_) => None,
                Ok(p) => std::panic::catch_unwind(std::panic::AssertUnwindSafe(|| match which {
                    "i" => p.format_int(&ints[k]).ok(),
                    "s" => p.format_string(&S(strs[k].to_string())).ok(),
                    "b" => p.format_bool(bools[k]).ok(),
                    _ => p.format_float(floats[k]).ok(),
                }))
                .unwrap_or(Some("\u{0}PANIC".to_string())),
            };
            writeln!(out, "{}", r.unwrap_or("\u{0}E".to_string())).unwrap();
        }
    }
}
#[test]
fn enumerate() {
    std::panic::set_hook(Box::new(|_| {}));
    let dir = std::env::var("VERIF_NATIVE_DIR").unwrap();
    let values = std::fs::read_to_string(format!("{dir}/values.txt")).unwrap();
    let mut ints: Vec<BigInt> = vec![];
    let mut floats: Vec<f64> = vec![];
    for line in values.lines() {
        let mut it = line.split('\t');
        match it.next() {
            Some("i") => ints = it.map(|s| s.parse().unwrap()).collect(),
            Some("f") => floats = it.map(|s| s.parse().unwrap()).collect(),
            _ => {}
        }
    }
    for which in ["i", "s", "b", "f"] {
        run(which, &ints, &floats);
    }
}
