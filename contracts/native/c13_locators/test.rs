// C13 bounded stand-in (native enumeration): see driver.py.
use rustpython_parser::ast::{self, Fold};
use rustpython_parser::source_code::{LinearLocator, RandomLocator};
use rustpython_parser::text_size::TextSize;
use rustpython_parser::Parse;
use std::io::{BufRead, Write};

fn unhex(hex: &str) -> String {
    let bytes: Vec<u8> = (0..hex.len() / 2).map(|i| u8::from_str_radix(&hex[2 * i..2 * i + 2], 16).unwrap()).collect();
    String::from_utf8(bytes).unwrap()
}

#[test]
fn enumerate() {
    std::panic::set_hook(Box::new(|_| {}));
    let dir = std::env::var("VERIF_NATIVE_DIR").unwrap();
    let progs = std::io::BufReader::new(std::fs::File::open(format!("{dir}/programs.txt")).unwrap());
    let mut out = std::io::BufWriter::new(std::fs::File::create(format!("{dir}/out.txt")).unwrap());
    for line in progs.lines() {
        let src = unhex(&line.unwrap());
        // (1) every character boundary, ascending, through both locators: "offset:row:col:row:col"
        let r = std::panic::catch_unwind(|| {
            let mut lin = LinearLocator::new(&src);
            let mut ran = RandomLocator::new(&src);
            let mut s = String::new();
            // offsets inside / before a leading BOM are never the position of a token, a node or an error (the lexer
            // starts after it) and the linear locator does not accept them: start at the end of the BOM
            let first = if src.starts_with('\u{feff}') { 3 } else { 0 };
            for (off, _) in src.char_indices().chain(std::iter::once((src.len(), ' '))).filter(|(o, _)| *o >= first) {
                let a = lin.locate(TextSize::new(off as u32));
                let b = ran.locate(TextSize::new(off as u32));
                s.push_str(&format!("{}:{}:{}:{}:{} ", off, a.row.get(), a.column.get(), b.row.get(), b.column.get()));
            }
            // the linear locator started fresh at each single offset, and for each pair of consecutive boundaries skipping
            // one in between (it then enters a line in its middle): must give what the ascending walk gave
            // The position between the CR and the LF of a CRLF is never the start or end of a token, node or error; a
            // linear locator that enters a line exactly there disagrees with the index (noted in DESIGN.md): left out here.
            let sb = src.as_bytes();
            let bounds: Vec<usize> = src
                .char_indices()
                .map(|(o, _)| o)
                .chain(std::iter::once(src.len()))
                .filter(|o| *o >= first)
                .filter(|&o| !(o > 0 && o < sb.len() && sb[o - 1] == b'\r' && sb[o] == b'\n'))
                .collect();
            for (k, &off) in bounds.iter().enumerate() {
                let b = ran.locate(TextSize::new(off as u32));
                let a = LinearLocator::new(&src).locate(TextSize::new(off as u32));
                if (a.row, a.column) != (b.row, b.column) {
                    s.push_str(&format!("{}:{}:{}:{}:{} ", off, a.row.get(), a.column.get(), b.row.get(), b.column.get()));
                }
                if k >= 2 {
                    let mut lin2 = LinearLocator::new(&src);
                    lin2.locate(TextSize::new(bounds[k - 2] as u32));
                    let a2 = lin2.locate(TextSize::new(off as u32));
                    if (a2.row, a2.column) != (b.row, b.column) {
                        s.push_str(&format!("{}:{}:{}:{}:{} ", off, a2.row.get(), a2.column.get(), b.row.get(), b.column.get()));
                    }
                }
            }
            s
        })
        .unwrap_or("PANIC".to_string());
        // (2) the parsed tree located by the linear-scan fold and by the indexed fold must be the same tree
        let t = std::panic::catch_unwind(|| match ast::Suite::parse(&src, "<c13>") {
            Err(_) => "noparse".to_string(),
            Ok(suite) => {
                // the byte range of every Name node spells that name (the ranges are what the locators convert)
                let raw = format!("{:?}", suite);
                for part in raw.split("ExprName { range: ").skip(1) {
                    let mut it = part.splitn(2, ", id: Identifier(\"");
                    let (range, rest) = (it.next().unwrap_or(""), it.next().unwrap_or(""));
                    let name = rest.split('"').next().unwrap_or("");
                    let mut ab = range.split("..");
                    let (a, b) = (ab.next().and_then(|x| x.parse::<usize>().ok()), ab.next().and_then(|x| x.parse::<usize>().ok()));
                    if let (Some(a), Some(b)) = (a, b) {
                        if src.get(a..b) != Some(name) {
                            return format!("NAMERANGE the Name node {:?} has the range {}..{}, which covers {:?}", name, a, b, src.get(a..b));
                        }
                    }
                }
                let a = LinearLocator::new(&src).fold(suite.clone()).unwrap();
                let b = RandomLocator::new(&src).fold(suite).unwrap();
                // SourceRange has no PartialEq: the Debug rendering shows every field of every node
                let (a, b) = (format!("{:?}", a), format!("{:?}", b));
                if a == b {
                    "same".to_string()
                } else {
                    format!("DIFFERENT {} vs {}", a, b).chars().take(300).collect()
                }
            }
        })
        .unwrap_or("PANIC".to_string());
        writeln!(out, "{}\t{}", r, t.replace('\n', " ")).unwrap();
    }
}
