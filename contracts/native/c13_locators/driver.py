#!/usr/bin/env python3
"""C13 bounded stand-in: (1) both locators on every character boundary of every text of a corpus, against the
row / column the statement defines (CR, LF and CRLF one line break each, columns in characters, a leading BOM not
counted), computed here; (2) the parsed tree located through the linear-scan fold and through the indexed fold is
the same tree."""
import itertools, json, os, sys

THOROUGH = os.environ.get("VERIF_NATIVE_SIZE", "quick") == "thorough"
PIECES = ['a', 'é', '日', '\n', '\r', '\r\n', ' ', '=1', '(', ')', "'s'", '#c', '\\\n', 'x+y', ':', '    ', 'if a', 'b=2', '"""q\nr"""', 'f(k=1,*z)', '@d\ndef g(p=1): pass', 'lambda: 0', 'g(a,\n', ' k=é,\r\n j=2)', 'f"""x{a}\n', 'é{b}"""']
BOM = '﻿'
N = 4 if THOROUGH else 3


def programs():
    seen = set()
    for n in range(0, N + 1):
        for t in itertools.product(PIECES, repeat=n):
            s = ''.join(t)
            for p in (s, BOM + s):
                if p not in seen:
                    seen.add(p)
                    yield p


def spec(src):
    """(offset, row, column) for every character boundary: the statement's definition."""
    b = src.encode('utf-8')
    out = []
    row = 1
    col = 1
    i = 0
    off = 0
    chars = list(src)
    k = 0
    while True:
        out.append((off, row, col))
        if k == len(chars):
            break
        c = chars[k]
        w = len(c.encode('utf-8'))
        if c == '\n':
            row += 1; col = 1
        elif c == '\r':
            if k + 1 < len(chars) and chars[k + 1] == '\n':
                # inside CRLF: the position between CR and LF still belongs to the old line
                col += 1
            else:
                row += 1; col = 1
        elif c == BOM and k == 0:
            pass  # a leading BOM is not counted
        else:
            col += 1
        off += w
        k += 1
    return out


def prepare(d):
    with open(os.path.join(d, "programs.txt"), "w") as f:
        for s in programs():
            f.write(s.encode('utf-8').hex() + "\n")


def judge(d):
    n = 0
    bad = []
    count = 0

    all_inputs = []

    def mismatch(inp, exp, got):
        nonlocal count
        count += 1
        if len(all_inputs) < 2000:
            all_inputs.append(inp)
        if len(bad) < 25:
            bad.append({"input": inp, "expected": exp, "got": got})
    with open(os.path.join(d, "out.txt"), encoding="utf-8") as f:
        for s in programs():
            line = f.readline().rstrip("\n")
            locs, tree = line.split("\t")
            n += 1
            if locs == "PANIC":
                mismatch(repr(s), "no panic", "a locator panicked")
            else:
                got = [tuple(int(x) for x in item.split(":")) for item in locs.split()]
                exp = [e for e in spec(s) if not (s.startswith(BOM) and e[0] < 3)]
                if len(got) > len(exp):
                    # extra entries: a linear locator started fresh at (or two boundaries before) an offset disagrees with
                    # the indexed locator there
                    g = got[len(exp)]
                    mismatch("%r at offset %d (linear locator entering the line at this offset)" % (s, g[0]), "what the indexed locator says: %d:%d" % (g[3], g[4]), "linear %d:%d" % (g[1], g[2]))
                    got = got[:len(exp)]
                if len(got) != len(exp):
                    mismatch(repr(s), "%d boundaries" % len(exp), "%d" % len(got))
                else:
                    for (off, row, col), g in zip(exp, got):
                        if g[0] != off or (g[1], g[2]) != (row, col) or (g[3], g[4]) != (row, col):
                            mismatch("%r at offset %d" % (s, off), "row %d column %d" % (row, col), "linear %d:%d indexed %d:%d" % (g[1], g[2], g[3], g[4]))
                            break
            if tree.startswith("NAMERANGE"):
                mismatch(repr(s), "the byte range of a Name node spells the name", tree[10:200])
            elif tree not in ("same", "noparse"):
                mismatch(repr(s), "the two located trees are equal (and neither fold panics)", tree[:200])
    print(json.dumps({"evaluated": n, "mismatches": bad, "mismatch_count": count, "all_inputs": all_inputs}))


if __name__ == "__main__":
    {"prepare": prepare, "judge": judge}[sys.argv[1]](sys.argv[2])
