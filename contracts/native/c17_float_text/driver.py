#!/usr/bin/env python3
"""C17 bounded stand-in: the float text functions of literal/src/float.rs against CPython: parse_str on every text of
up to 5 (thorough: 6) characters over `0 1 . e + - _ space i n f a`; to_string (repr), to_hex, from_hex(to_hex),
format_fixed / format_exponent / format_general on a fixed list of doubles (special values, boundaries, 20,000
pseudo-random bit patterns, 20,000 human-scale magnitudes)."""
import itertools, json, math, os, struct, sys

ALPHA = "01.e+-_ infa"
MAXLEN = 6 if os.environ.get("VERIF_NATIVE_SIZE", "quick") == "thorough" else 5
NANBITS = 0x7ff8000000000000


def bits(v):
    return struct.unpack('<Q', struct.pack('<d', v))[0]


def texts():
    for n in range(0, MAXLEN + 1):
        for t in itertools.product(ALPHA, repeat=n):
            yield "".join(t)


HEX_ALPHA = "+-0x1f.p8X \t"
HEX_MAXLEN = 6 if os.environ.get("VERIF_NATIVE_SIZE", "quick") == "thorough" else 5


def hex_texts():
    for n in range(0, HEX_MAXLEN + 1):
        for t in itertools.product(HEX_ALPHA, repeat=n):
            yield "".join(t)


def prepare(d):
    with open(os.path.join(d, "texts.txt"), "w") as f:
        for s in texts():
            f.write(s + "\n")
    with open(os.path.join(d, "hex_texts.txt"), "w") as f:
        for s in hex_texts():
            f.write(s + "\n")


def judge(d):
    n = 0
    bad = []
    count = 0

    def mismatch(inp, exp, got):
        nonlocal count
        count += 1
        if len(bad) < 25:
            bad.append({"input": inp, "expected": exp, "got": got})

    with open(os.path.join(d, "out_parse.txt")) as f:
        for s in texts():
            got = f.readline()[:-1]
            try:
                v = float(s)
                exp = '%016x' % (NANBITS if math.isnan(v) else bits(v))
            except ValueError:
                exp = 'E'
            n += 1
            if got != exp:
                mismatch("float(%r)" % s, exp, got)
    with open(os.path.join(d, "out_fromhex.txt")) as f:
        for s in hex_texts():
            got = f.readline()[:-1]
            try:
                v = float.fromhex(s)
                exp = '%016x' % (NANBITS if math.isnan(v) else bits(v))
            except (ValueError, OverflowError):
                exp = 'E'
            n += 1
            if got != exp:
                mismatch("float.fromhex(%r)" % s, exp, got)
    with open(os.path.join(d, "out_render.txt")) as f:
        for line in f:
            b, kind, got = line.rstrip('\n').split('\t')
            v = struct.unpack('<d', struct.pack('<Q', int(b, 16)))[0]
            n += 1
            if kind == 'repr':
                exp = repr(v)
                if got != exp:
                    # the statement asks for A shortest round-tripping rendering of Python's shape, not Python's digits
                    try:
                        ok = len(got) == len(exp) and bits(float(got)) == bits(v) and (('e' in got) == ('e' in exp))
                    except ValueError:
                        ok = False
                    if not ok:
                        mismatch("repr(%r)" % v, exp, got)
                continue
            if kind == 'hex':
                exp = v.hex()
            elif kind == 'hexrt':
                exp = '%016x' % (NANBITS if math.isnan(v) else bits(v))
            else:
                t = kind[0]
                alt = kind[-1] == '1'
                prec = int(kind[1:-1])
                if t == 'g' and prec == 0:
                    prec = 1
                exp = ('%' + ('#' if alt else '') + '.' + str(prec) + t) % abs(v)
            if got != exp:
                mismatch("%s of %r" % (kind, v), exp, got)
    print(json.dumps({"evaluated": n, "mismatches": bad, "mismatch_count": count}))


if __name__ == "__main__":
    {"prepare": prepare, "judge": judge}[sys.argv[1]](sys.argv[2])
