// C17 bounded stand-in (native enumeration): see driver.py.
use rustpython_literal::float::*;
use rustpython_literal::format::Case;
use std::io::{BufRead, Write};
fn vals() -> Vec<f64> {
    let mut v = vec![
        0.0, -0.0, 1.0, -1.5, 0.1, 1e15, 1e16, 9999999999999998.0, 1e17, 1e-4, 1e-5, 0.00012345, 123456789.125, 1e22, 1e23, 5e-324, -5e-324,
        2.2250738585072014e-308, 2.225073858507201e-308, 1.7976931348623157e308, f64::INFINITY, f64::NEG_INFINITY, f64::NAN, 2.5, 0.5, 1e100,
        3.14159, 100.0, 1234567.0, 0.3, 2.675, 1e21, 9.999999999999999e22, 0.0001, 0.00001, 123456.0, 1e-7,
    ];
    let mut x: u64 = 0x9E3779B97F4A7C15;
    for _ in 0..20000 {
        x ^= x << 13;
        x ^= x >> 7;
        x ^= x << 17;
        let f = f64::from_bits(x);
        if f.is_finite() {
            v.push(f);
        }
        // subnormals and human-scale magnitudes
        v.push(f64::from_bits(x & 0x800f_ffff_ffff_ffff));
        v.push(((x >> 11) as f64) / 1e9 * if x & 1 == 0 { 1.0 } else { -1.0 });
    }
    v
}
#[test]
fn enumerate() {
    std::panic::set_hook(Box::new(|_| {}));
    let dir = std::env::var("VERIF_NATIVE_DIR").unwrap();
    let texts = std::io::BufReader::new(std::fs::File::open(format!("{dir}/texts.txt")).unwrap());
    let mut out = std::io::BufWriter::new(std::fs::File::create(format!("{dir}/out_parse.txt")).unwrap());
    for line in texts.lines() {
        let s = line.unwrap();
        let r = std::panic::catch_unwind(|| match parse_str(&s) {
            Some(v) => format!("{:016x}", if v.is_nan() { f64::NAN.to_bits() } else { v.to_bits() }),
            None => "E".to_string(),
        })
        .unwrap_or("PANIC".to_string());
        writeln!(out, "{}", r).unwrap();
    }
    let texts = std::io::BufReader::new(std::fs::File::open(format!("{dir}/hex_texts.txt")).unwrap());
    let mut out = std::io::BufWriter::new(std::fs::File::create(format!("{dir}/out_fromhex.txt")).unwrap());
    for line in texts.lines() {
        let s = line.unwrap();
        let r = std::panic::catch_unwind(|| match from_hex(&s) {
            Some(v) => format!("{:016x}", if v.is_nan() { f64::NAN.to_bits() } else { v.to_bits() }),
            None => "E".to_string(),
        })
        .unwrap_or("PANIC".to_string());
        writeln!(out, "{}", r).unwrap();
    }
    drop(out);
    let mut f = std::io::BufWriter::new(std::fs::File::create(format!("{dir}/out_render.txt")).unwrap());
    for v in vals() {
        let bits = v.to_bits();
        let g = |h: &dyn Fn() -> String| std::panic::catch_unwind(std::panic::AssertUnwindSafe(|| h())).unwrap_or("PANIC".to_string());
        writeln!(f, "{:016x}\trepr\t{}", bits, g(&|| to_string(v))).unwrap();
        writeln!(f, "{:016x}\thex\t{}", bits, g(&|| to_hex(v))).unwrap();
        writeln!(f, "{:016x}\thexrt\t{}", bits, g(&|| match from_hex(&to_hex(v)) { Some(w) => format!("{:016x}", if w.is_nan() { f64::NAN.to_bits() } else { w.to_bits() }), None => "E".to_string() })).unwrap();
        for p in [0usize, 1, 3, 6, 17] {
            for alt in [false, true] {
                let m = v.abs();
                writeln!(f, "{:016x}\tf{}{}\t{}", bits, p, alt as u8, g(&|| format_fixed(p, m, Case::Lower, alt))).unwrap();
                writeln!(f, "{:016x}\te{}{}\t{}", bits, p, alt as u8, g(&|| format_exponent(p, m, Case::Lower, alt))).unwrap();
                writeln!(f, "{:016x}\tg{}{}\t{}", bits, p, alt as u8, g(&|| format_general(if p == 0 { 1 } else { p }, m, Case::Lower, alt, false))).unwrap();
            }
        }
    }
}
