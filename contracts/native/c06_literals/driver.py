#!/usr/bin/env python3
"""C06 bounded stand-in: every single-token literal of a stated corpus parsed with ast::Expr::parse, value compared
with CPython's ast.parse(mode='eval'): string / bytes bodies of up to 3 (thorough: 4) characters over an escape-heavy
alphabet x 10 prefixes x both quotes, number-like texts of up to 4 (thorough: 5) characters."""
import ast, itertools, json, os, struct, sys, warnings

warnings.simplefilter('ignore')
THOROUGH = os.environ.get("VERIF_NATIVE_SIZE", "quick") == "thorough"
ALPHA = ['\\', 'x', 'u', 'U', 'N', '0', '7', '8', 'a', 'f', 'G', '{', '}', 'n', "'", '"', ' ', 'é']
PREFIXES = ['', 'b', 'r', 'rb', 'Rb', 'bR', 'u', 'B', 'BR', 'Ur']
NALPHA = ['0', '1', '9', '_', '.', 'e', 'E', '+', '-', 'j', 'x', 'o', 'b', 'a', 'F', 'X', 'O', 'B']
NAMED = ["'\\N{LATIN SMALL LETTER A}'", "'\\N{latin small letter a}'", "'\\N{BOX DRAWINGS LIGHT DIAGONAL UPPER CENTRE TO MIDDLE LEFT AND MIDDLE RIGHT TO LOWER CENTRE}'",
         "'\\N{BOX DRAWINGS LIGHT DIAGONAL UPPER CENTRE TO MIDDLE RIGHT TO LOWER CENTRE TO MIDDLE LEFT}'", "'\\N{NOT A NAME}'", "'\\N{}'", "'\\N{SPACE'", "b'\\N{SPACE}'",
         "'\\N{SPACE}\\N{DIGIT ONE}'", "'a' 'b'", "'a' b'b'", "b'a' b'b'", "'a' \"b\" 'c'", "u'a' 'b'", "'a' u'b'", "r'\\n' '\\n'", "'''a\nb'''", "'a\\\nb'", "0x_f", "0o17", "0b101", "1_000.000_1e1_0", "1e309", "0777", "00", "0_0", "1__0", "1j", "1.5J", "0xFFFFFFFFFFFFFFFFFFFFFFFF", "123456789012345678901234567890"]


DIGITS = ["1000000000000000111022302462515655000000", "0000000000000000000012500000000000000000", "9007199254740993000000000000000000000001",
          "3141592653589793238462643383279502884197", "1797693134862315708145274237317043567981"]


def literals():
    seen = set()

    def emit(s):
        if '\r' in s or s in seen:
            return None
        seen.add(s)
        return s
    for n in range(0, (5 if THOROUGH else 4)):
        for t in itertools.product(ALPHA, repeat=n):
            body = ''.join(t)
            for p in (PREFIXES if n <= 3 else ['', 'b']):
                for q in ("'", '"'):
                    s = emit(p + q + body + q)
                    if s is not None:
                        yield s
    for n in range(1, (6 if THOROUGH else 5)):
        for t in itertools.product(NALPHA, repeat=n):
            s = emit(''.join(t))
            if s is not None:
                yield s
    for s in NAMED:
        s = emit(s)
        if s is not None:
            yield s
    # long integers: word-size boundaries in every radix
    for prefix, digits, maxlen in (("0b", "01", 70), ("0B", "01", 70), ("0o", "01234567", 30), ("0O", "01234567", 30), ("0x", "0123456789abcdefF", 20), ("0X", "0123456789abcdefF", 20), ("", "123456789", 40)):
        for ln in range(1, maxlen + 1):
            for dgt in digits:
                for body in (dgt * ln, "1" + "0" * (ln - 1), "_".join(dgt * ln)):
                    s = emit(prefix + body)
                    if s is not None:
                        yield s
    # long mantissas: digit strings of 18-40 digits with the point at every position, plain, with an exponent, imaginary
    for digits in DIGITS:
        for total in (18, 20, 25, 33, 40):
            d = digits[:total]
            for point in range(0, total + 1):
                body = d[:point] + "." + d[point:] if point else "0." + d
                body = body.lstrip("0") if not body.startswith("0.") else body
                if body.startswith("."):
                    body = "0" + body
                for tail in ("", "e5", "e-5", "e40", "e-300", "e300", "j", "e-20j"):
                    s = emit(body + tail)
                    if s is not None:
                        yield s


def bits(v):
    return '%016x' % struct.unpack('<Q', struct.pack('<d', v))[0]


def constant(v):
    if isinstance(v, str):
        return 's:' + ','.join('%x' % ord(c) for c in v)
    if isinstance(v, bytes):
        return 'b:' + v.hex()
    if isinstance(v, bool) or v is None or v is Ellipsis:
        return 'other'
    if isinstance(v, int):
        return 'i:%d' % v
    if isinstance(v, float):
        return 'f:' + bits(v)
    if isinstance(v, complex):
        return 'c:%s:%s' % (bits(v.real), bits(v.imag))
    return 'other'


def canon(e):
    if isinstance(e, ast.Constant):
        return ('[%s]' % e.kind if e.kind else '') + constant(e.value)
    if isinstance(e, ast.UnaryOp) and isinstance(e.operand, ast.Constant):
        if isinstance(e.op, ast.USub):
            return '-' + constant(e.operand.value)
        if isinstance(e.op, ast.UAdd):
            return '+' + constant(e.operand.value)
    return 'X'


def prepare(d):
    with open(os.path.join(d, "literals.txt"), "w") as f:
        for s in literals():
            f.write(s.encode('utf-8').hex() + "\n")  # hex of the UTF-8 bytes: the corpus contains backslashes and line breaks


def judge(d):
    n = 0
    bad = []
    count = 0
    with open(os.path.join(d, "out.txt")) as f:
        for s in literals():
            got = f.readline()[:-1]
            try:
                exp = canon(ast.parse(s, mode='eval').body)
            except (SyntaxError, ValueError, MemoryError, OverflowError):
                exp = 'E'
            n += 1
            if got != exp:
                count += 1
                if len(bad) < 25:
                    bad.append({"input": s, "expected": exp, "got": got})
    print(json.dumps({"evaluated": n, "mismatches": bad, "mismatch_count": count}))


if __name__ == "__main__":
    {"prepare": prepare, "judge": judge}[sys.argv[1]](sys.argv[2])
