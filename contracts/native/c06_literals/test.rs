// C06 bounded stand-in (native enumeration): see driver.py.
use rustpython_parser::{ast, Parse};
use std::io::{BufRead, Write};
fn constant(c: &ast::Constant) -> String {
    match c {
        ast::Constant::Str(s) => format!("s:{}", s.chars().map(|c| format!("{:x}", c as u32)).collect::<Vec<_>>().join(",")),
        ast::Constant::Bytes(b) => format!("b:{}", b.iter().map(|c| format!("{:02x}", c)).collect::<String>()),
        ast::Constant::Int(i) => format!("i:{}", i),
        ast::Constant::Float(f) => format!("f:{:016x}", f.to_bits()),
        ast::Constant::Complex { real, imag } => format!("c:{:016x}:{:016x}", real.to_bits(), imag.to_bits()),
        _ => "other".to_string(),
    }
}
fn canon(e: &ast::Expr) -> String {
    match e {
        ast::Expr::Constant(c) => format!(
            "{}{}",
            match &c.kind {
                Some(k) => format!("[{}]", k),
                None => String::new(),
            },
            constant(&c.value)
        ),
        ast::Expr::UnaryOp(u) => match (&u.op, &*u.operand) {
            (ast::UnaryOp::USub, ast::Expr::Constant(c)) => format!("-{}", constant(&c.value)),
            (ast::UnaryOp::UAdd, ast::Expr::Constant(c)) => format!("+{}", constant(&c.value)),
            _ => "X".to_string(),
        },
        _ => "X".to_string(),
    }
}
#[test]
fn enumerate() {
    std::panic::set_hook(Box::new(|_| {}));
    let dir = std::env::var("VERIF_NATIVE_DIR").unwrap();
    let lits = std::io::BufReader::new(std::fs::File::open(format!("{dir}/literals.txt")).unwrap());
    let mut out = std::io::BufWriter::new(std::fs::File::create(format!("{dir}/out.txt")).unwrap());
    for line in lits.lines() {
        let hex = line.unwrap();
        let bytes: Vec<u8> = (0..hex.len() / 2).map(|i| u8::from_str_radix(&hex[2 * i..2 * i + 2], 16).unwrap()).collect();
        let src = String::from_utf8(bytes).unwrap();
        let r = std::panic::catch_unwind(|| match ast::Expr::parse(&src, "<d>") {
            Ok(e) => canon(&e),
            Err(_) => "E".to_string(),
        })
        .unwrap_or("PANIC".to_string());
        writeln!(out, "{}", r).unwrap();
    }
}
